(* C05 / C06 on a connection that negotiated permessage-deflate: after a conforming prefix, a compressed message that the
   inflater cannot restore, or a compressed text message that inflates to ill-formed UTF-8, yields exactly one critical
   ProtocolError, fails the feed, and nothing of it is delivered. *)
From Coq Require Import List NArith ZArith Arith Lia Bool.
From Coq.Strings Require Import Byte.
From RecordUpdate Require Import RecordSet.
From Model Require Import Bytes Utf8 Frame Parser FrameParser Response Conn.
From Proofs Require Import BytesFacts Utf8Facts ParserFacts FrameParserFacts FrameFacts ConnFacts ApiFacts TraceFacts ViolationFacts ShapeFacts DeliveryFacts StreamViolation CompressionFacts DeliveryZ.
Import ListNotations RecordSetNotations.
Open Scope N_scope.

Section BadCompressed.
  Variable cf : cfg.
  Variable app : strategy.
  Hypothesis app_benign : benign app.
  Hypothesis no_ping_timeout : zpos (c_ping_timeout cf) = None.

  Theorem bad_compressed_message_after_prefix d fs lfs c tape ms tape' f lf rest :
    idle_z d c [] tape -> Forall zframe fs -> forms_ok fs lfs ->
    ref_messages_z [] tape fs = Some (ms, [], tape') ->
    zframe f -> f_rsv1 f = true -> f_fin f = true -> form_ok lf (blen (f_payload f)) = true ->
    (f_op f = OP_TEXT \/ f_op f = OP_BINARY) ->
    (match tape' with
     | Some (out, _) :: _ => f_op f = OP_TEXT /\ ~ utf8_wf out     (* inflates, but not to text *)
     | None :: _ => True                                            (* zlib refuses the data *)
     | [] => True                                                    (* (an exhausted oracle tape counts as a refusal) *)
     end) ->
    let r := feedf cf app c (encode_all fs lfs ++ enc_frame f lf ++ rest) in
    snd r <> SOk /\
    msg_events (k_tr (fst r)) = rev (map ev_of ms) ++ msg_events (k_tr c) /\
    perrors (k_tr (fst r)) = true :: perrors (k_tr c).
  Proof.
    intros Hidle Hpl Hforms Href Hpf Hr1 Hfin Hform Hop Hbad. cbv zeta.
    assert (Hv : validate_err true (hdr_z f) (blen (f_payload f)) = false).
    { unfold validate_err, hdr_z. cbn [h_r1 h_r2 h_r3 h_op h_fin]. rewrite Hfin. destruct Hop as [-> | ->]; reflexivity. }
    destruct (deliver_frames_z cf app app_benign no_ping_timeout d fs lfs c [] tape ms [] tape' Hidle I Hpl Hforms Href)
      as (c1 & E1 & Hidle1 & Hdh1 & M1 & _ & _).
    pose proof (feed_ok_no_protocol_error cf app c _ c1 E1) as P1.
    rewrite (feed_split cf app (length (encode_all fs lfs)) (encode_all fs lfs) (enc_frame f lf ++ rest) c (le_n _) (idle_z_ok d c [] tape Hidle)).
    unfold then_feed. rewrite E1. cbn [fst snd].
    destruct Hidle1 as (Hcl & Hcg & Hdf & Hsc & Hfr & Hzt & Hab). cbn [is_text_msg] in Hab.
    destruct (pull_one_frame_z (k_ps c1) false f lf rest Hab Hpf Hform Hv) as (s' & Hpull & _).
    rewrite feedf_unfold by (rewrite Hab; unfold fp_ok, st_ok; cbn; lia). unfold feed_body. rewrite Hcl, Hpull.
    set (cs := c1 <| k_ps := s' |>).
    assert (Hb : snd (build_message cs [f]) = inr MCritical /\ k_tr (fst (build_message cs [f])) = TInflate (k_zin cs) (map f_payload [f]) :: k_tr c1).
    { pose proof (build_message_compressed cs d f [] Hdf Hr1) as B. cbv zeta in B. destruct B as (B1 & _ & B3).
      split; [|exact B1]. change (k_ztape cs) with (k_ztape c1) in B3. rewrite Hzt in B3.
      destruct tape' as [|[[out ended]|] zs].
      - destruct B3 as [_ B3]. exact B3.
      - destruct Hbad as [Ht Hnwf]. destruct B3 as (_ & _ & B3). rewrite (B3 Ht).
        destruct (utf8_validb out) eqn:Evb; [apply validb_iff_wf in Evb; contradiction|reflexivity].
      - destruct B3 as [_ B3]. exact B3. }
    destruct Hb as [Hb1 Hb2].
    assert (Hitem : on_item cf app cs (IFrame f) =
                    (let '(c2, st) := raise_in_feed cf app (fst (build_message cs [f])) MCritical in (c2, st, FBreak))).
    { unfold on_item, stream_frame.
      assert (Ectl : is_control (f_op f) = false) by (destruct Hop as [-> | ->]; reflexivity).
      assert (Econt : (f_op f =? OP_CONT) = false) by (destruct Hop as [-> | ->]; reflexivity).
      rewrite Ectl, Econt, Hfin. change (k_frames cs) with (k_frames c1). rewrite Hfr. cbv iota.
      destruct (build_message cs [f]) as [c2 r2]. cbn [fst snd] in *. subst r2. reflexivity. }
    rewrite Hitem.
    set (cb := fst (build_message cs [f])) in *.
    pose proof (raise_in_feed_not_ok cf app cb MCritical) as Hst.
    destruct (raise_in_feed_trace cf app cb MCritical) as (l & El & Fl).
    destruct (raise_in_feed cf app cb MCritical) as [c3 st]. cbn [fst snd] in *.
    rewrite Hb2 in El.
    destruct st; try congruence; cbn [fst snd]; (split; [discriminate|]); rewrite El;
      (split; [rewrite housekeeping_no_msg by exact Fl; cbn [msg_events is_msg_ev]; exact M1
              |rewrite perrors_nope by (eapply Forall_impl; [exact housekeeping_nope|exact Fl]); cbn [perrors]; rewrite P1; reflexivity]).
  Qed.
End BadCompressed.
