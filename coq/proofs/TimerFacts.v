(* Keep-alive arithmetic over integer ticks: the timer fields of the session as pure step functions, and what follows
   for EVERY sequence of check instants. *)
From Coq Require Import List ZArith Lia Bool.
Import ListNotations.
Open Scope Z_scope.

Definition ceil_div (a b : Z) : Z := - ((- a) / b).

Lemma ceil_div_ge a b : 0 < b -> a <= ceil_div a b * b.
Proof. intros Hb. unfold ceil_div. pose proof (Z.div_mod (- a) b ltac:(lia)). pose proof (Z.mod_pos_bound (- a) b Hb). nia. Qed.
Lemma ceil_div_lt a b : 0 < b -> ceil_div a b * b < a + b.
Proof. intros Hb. unfold ceil_div. pose proof (Z.div_mod (- a) b ltac:(lia)). pose proof (Z.mod_pos_bound (- a) b Hb). nia. Qed.
Lemma ceil_div_gt_mult a k b : 0 < b -> k * b < a -> k < ceil_div a b.
Proof. intros Hb H. pose proof (ceil_div_ge a b Hb). apply (Z.mul_lt_mono_pos_r b); lia. Qed.
Lemma ceil_div_le_mult a k b : 0 < b -> a <= k * b -> ceil_div a b * b <= k * b.
Proof. intros Hb H. pose proof (ceil_div_lt a b Hb). assert (ceil_div a b < k + 1) by (apply (Z.mul_lt_mono_pos_r b); lia). nia. Qed.

Fixpoint nondecreasing_from (lo : Z) (ts : list Z) : Prop :=
  match ts with [] => True | t :: rest => lo <= t /\ nondecreasing_from t rest end.
(* consecutive check instants are at most g apart (the selector returns within its timeout; handlers take no time) *)
Fixpoint gaps_le (g : Z) (prev : Z) (ts : list Z) : Prop :=
  match ts with [] => True | t :: rest => t - prev <= g /\ gaps_le g t rest end.
(* P holds between a and the head of the list, and between consecutive elements *)
Fixpoint chain (P : Z -> Z -> Prop) (a : Z) (l : list Z) : Prop :=
  match l with [] => True | b :: rest => P a b /\ chain P b rest end.

(* ---------- _check_poll ---------- *)
Definition poll_step (p : Z) (ps : option Z) (t : Z) : option Z * bool :=
  match ps with
  | None => (Some t, true)
  | Some s => if t - s >=? p then (Some t, true) else (ps, false)
  end.
Fixpoint polls (p : Z) (ps : option Z) (ts : list Z) : list Z :=
  match ts with
  | [] => []
  | t :: rest => let '(ps', fired) := poll_step p ps t in
                 if fired then t :: polls p ps' rest else polls p ps' rest
  end.

(* never closer together than p *)
Theorem polls_not_closer p : forall ts s last, s <= last -> nondecreasing_from last ts ->
  chain (fun a b => p <= b - a) s (polls p (Some s) ts).
Proof.
  induction ts as [|t rest IH]; intros s last Hs Hnd; [exact I|].
  destruct Hnd as [Hlt Hnd]. cbn [polls poll_step]. destruct (t - s >=? p) eqn:E.
  - cbn [chain]. split; [lia|]. apply (IH t t); [lia|exact Hnd].
  - apply (IH s t); [lia|exact Hnd].
Qed.

(* never further apart than 2p, provided the loop wakes up at least every p *)
Theorem polls_not_further p : forall ts s last, s <= last -> last - s < p -> nondecreasing_from last ts -> gaps_le p last ts ->
  chain (fun a b => b - a < 2 * p) s (polls p (Some s) ts).
Proof.
  induction ts as [|t rest IH]; intros s last Hs Hl Hnd Hg; [exact I|].
  destruct Hnd as [Hlt Hnd]. destruct Hg as [Hg1 Hg]. cbn [polls poll_step]. destruct (t - s >=? p) eqn:E.
  - cbn [chain]. split; [lia|]. apply (IH t t); try lia; assumption.
  - apply (IH s t); try lia; assumption.
Qed.

(* the first Poll happens at the first check instant after Ready *)
Theorem polls_begin p t rest : polls p None (t :: rest) = t :: polls p (Some t) rest.
Proof. reflexivity. Qed.

(* and as long as the loop keeps waking up, a Poll is never overdue: the start instant trails the last check by < p *)
Theorem poll_never_overdue p ps t : 0 < p -> forall s', fst (poll_step p ps t) = Some s' -> t - s' < p.
Proof.
  intros Hp s' H. unfold poll_step in H. destruct ps as [s|]; cbn in H.
  - destruct (t - s >=? p) eqn:E; cbn in H; inversion H; subst; lia.
  - inversion H; subst; lia.
Qed.

(* ---------- _check_auto_ping ---------- *)
Definition ping_step (r : Z) (np : Z) (t : Z) : Z * bool :=
  if negb (r =? 0) && (t >? np) then (ceil_div t r * r, true) else (np, false).
Fixpoint pings (r : Z) (np : Z) (ts : list Z) : list Z :=
  match ts with
  | [] => []
  | t :: rest => let '(np', fired) := ping_step r np t in
                 if fired then t :: pings r np' rest else pings r np' rest
  end.

Theorem no_pings_when_rate_zero np ts : pings 0 np ts = [].
Proof. revert np; induction ts as [|t rest IH]; intros np; [reflexivity|]. cbn. apply IH. Qed.

(* never twice within one period (k r, (k+1) r]: consecutive Pings lie in different periods *)
Theorem pings_one_per_period r : 0 < r -> forall ts u, 
  chain (fun a b => ceil_div a r < ceil_div b r) u (pings r (ceil_div u r * r) ts).
Proof.
  intros Hr. induction ts as [|t rest IH]; intros u; [exact I|].
  cbn [pings]. unfold ping_step. destruct (negb (r =? 0) && (t >? ceil_div u r * r)) eqn:E.
  - cbn [chain]. apply andb_true_iff in E as [_ E]. split; [apply ceil_div_gt_mult; lia|apply IH].
  - apply IH.
Qed.

(* the same, for the Pings after Ready (next_ping starts at 0 = ceil(0/r) r) *)
Corollary pings_one_per_period_from_ready r ts : 0 < r ->
  chain (fun a b => ceil_div a r < ceil_div b r) 0 (pings r 0 ts).
Proof. intros Hr. pose proof (pings_one_per_period r Hr ts 0) as H. unfold ceil_div in H at 3. simpl in H. exact H. Qed.

(* a Ping is written within p after every multiple m of r (m = 0 is Ready itself), as long as the loop keeps waking up *)
Theorem ping_after_every_multiple r p k : 0 < r -> forall ts np last,
  np <= k * r -> (exists j, np = j * r) -> last <= k * r -> gaps_le p last ts -> nondecreasing_from last ts ->
  (exists t, In t ts /\ k * r < t) ->
  exists u, In u (pings r np ts) /\ k * r < u <= k * r + p.
Proof.
  intros Hr. induction ts as [|t rest IH]; intros np last Hnp Hmul Hlast Hg Hnd (t0 & Hin & Ht0); [contradiction|].
  destruct Hg as [Hg1 Hg]. destruct Hnd as [Hlt Hnd].
  cbn [pings]. unfold ping_step. replace (negb (r =? 0)) with true by (symmetry; apply negb_true_iff, Z.eqb_neq; lia). cbn [andb].
  destruct (Z.le_gt_cases t (k * r)) as [Hle|Hgt].
  - (* this check is not after the multiple yet *)
    assert (Hex : exists t1, In t1 rest /\ k * r < t1).
    { destruct Hin as [<-|Hin]; [lia|]. exists t0. split; assumption. }
    destruct (t >? np) eqn:E.
    + destruct (IH (ceil_div t r * r) t) as (u & Hu & Hb); auto.
      * apply ceil_div_le_mult; lia.
      * eexists; reflexivity.
      * exists u. split; [right; exact Hu|exact Hb].
    + destruct (IH np t) as (u & Hu & Hb); auto. exists u. split; assumption.
  - (* the first check after the multiple: the Ping goes out here *)
    replace (t >? np) with true by (symmetry; apply Z.gtb_lt; lia).
    exists t. split; [left; reflexivity|lia].
Qed.

(* ---------- _check_ping_timeout and _check_close_timeout ---------- *)
Definition unresponsive (T : option Z) (last_pong t : Z) : bool :=
  match T with Some v => if v =? 0 then false else t - last_pong >? v | None => false end.
Definition close_overdue (C : option Z) (sent : option Z) (t : Z) : bool :=
  match C, sent with
  | Some v, Some s => if v =? 0 then false else t >=? s + v
  | _, _ => false
  end.

Theorem unresponsive_iff T lp t : unresponsive T lp t = true <-> exists v, T = Some v /\ v <> 0 /\ t - lp > v.
Proof.
  unfold unresponsive. destruct T as [v|]; [|split; [discriminate|intros (v & H & _); discriminate]].
  destruct (v =? 0) eqn:E.
  - apply Z.eqb_eq in E. split; [discriminate|]. intros (v' & H & Hn & _). inversion H; subst. contradiction.
  - apply Z.eqb_neq in E. split.
    + intros H. exists v. repeat split; auto. apply Z.gtb_lt in H. lia.
    + intros (v' & H & _ & Hg). inversion H; subst. apply Z.gtb_lt. lia.
Qed.

(* forced disconnect: no earlier than c after the Close was sent; noticed at the first check instant at or after s + c,
   hence no later than s + c + p when the loop wakes up at least every p *)
Theorem close_overdue_iff C sent t : close_overdue C sent t = true <-> exists v s, C = Some v /\ sent = Some s /\ v <> 0 /\ s + v <= t.
Proof.
  unfold close_overdue. destruct C as [v|]; [|split; [discriminate|intros (v & s & H & _); discriminate]].
  destruct sent as [s|]; [|split; [discriminate|intros (v' & s & _ & H & _); discriminate]].
  destruct (v =? 0) eqn:E.
  - apply Z.eqb_eq in E. split; [discriminate|]. intros (v' & s' & H & _ & Hn & _). inversion H; subst. contradiction.
  - apply Z.eqb_neq in E. split.
    + intros H. exists v, s. repeat split; auto. apply Z.geb_le in H. lia.
    + intros (v' & s' & H1 & H2 & _ & Hg). inversion H1; inversion H2; subst. apply Z.geb_le. lia.
Qed.

Theorem first_overdue_check_within_p C v s p : C = Some v -> v <> 0 -> forall ts last,
  last < s + v -> gaps_le p last ts -> nondecreasing_from last ts ->
  forall t, In t ts -> close_overdue C (Some s) t = true ->
  exists t1, In t1 ts /\ close_overdue C (Some s) t1 = true /\ s + v <= t1 <= s + v + p.
Proof.
  intros HC Hv. induction ts as [|t0 rest IH]; intros last Hl Hg Hnd t Hin Ho; [contradiction|].
  destruct Hg as [Hg1 Hg]. destruct Hnd as [Hlt Hnd].
  destruct (Z.lt_ge_cases t0 (s + v)) as [Hb|Hb].
  - destruct Hin as [<-|Hin].
    + apply close_overdue_iff in Ho as (v' & s' & H1 & H2 & _ & Hge). subst C. inversion H1; inversion H2; subst. lia.
    + destruct (IH t0 Hb Hg Hnd t Hin Ho) as (t1 & H1 & H2 & H3). exists t1. split; [right; exact H1|auto].
  - exists t0. split; [left; reflexivity|]. split; [|lia].
    apply close_overdue_iff. exists v, s. auto.
Qed.
