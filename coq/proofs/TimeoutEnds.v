(* Liveness of the timeouts at the level of the loop: the check instant at which an armed deadline has passed is the last
   iteration -- the loop is left through finish (Disconnected, socket and selector closed), whatever the application does. *)
From Coq Require Import List NArith ZArith Lia Bool.
From RecordUpdate Require Import RecordSet.
From Model Require Import Bytes Conn.
From Proofs Require Import ConnFacts TimerFacts TimerTie.
Import ListNotations RecordSetNotations.
Open Scope Z_scope.

Section WithCfg.
  Variable cf : cfg.
  Variable app : strategy.

  (* an iteration whose housekeeping does not come back with "go on" is the last one *)
  Lemma loop_left_after_regular dt rest c : k_closed c = false ->
    snd (regular cf app (advance c dt)) <> SOk ->
    loop cf app (StTimeout dt :: rest) c = finish app (fst (regular cf app (advance c dt))) (snd (regular cf app (advance c dt))) /\
    forall r, loop cf app (StRead dt r :: rest) c = finish app (fst (regular cf app (advance c dt))) (snd (regular cf app (advance c dt))).
  Proof.
    intros Hc Hs. cbn [loop]. rewrite Hc. destruct (regular cf app (advance c dt)) as [c1 st]. cbn [fst snd] in *.
    destruct st; [contradiction|split; [reflexivity|intros; reflexivity]..].
  Qed.

  (* the close timeout: at a check instant (a wake-up of the selector, with or without data) at which the deadline
     sent_close_time + close_timeout has passed, the iteration ends *)
  Theorem close_timeout_ends_the_loop dt rest c v s : k_closed c = false -> k_ready c = true ->
    c_close_timeout cf = Some v -> v <> 0 ->
    k_sent_close_time (fst (regular cf app (advance c dt))) = Some s -> s + v <= session_time (advance c dt) ->
    exists c' st, st <> SOk /\ loop cf app (StTimeout dt :: rest) c = finish app c' st /\
                  forall r, loop cf app (StRead dt r :: rest) c = finish app c' st.
  Proof.
    intros Hc Hr Hv Hn Hs Hd.
    assert (Hr' : k_ready (advance c dt) = true) by exact Hr.
    assert (Hst : snd (regular cf app (advance c dt)) <> SOk).
    { intros Hok. destruct (regular_ok_means_not_due cf app (advance c dt) Hr' Hok) as [A _].
      specialize (A v s Hv Hn Hs). lia. }
    destruct (loop_left_after_regular dt rest c Hc Hst) as [L1 L2].
    exists (fst (regular cf app (advance c dt))), (snd (regular cf app (advance c dt))). auto.
  Qed.

  (* the ping timeout: likewise, counted from the last Pong *)
  Theorem ping_timeout_ends_the_loop dt rest c v : k_closed c = false -> k_ready c = true ->
    c_ping_timeout cf = Some v -> v <> 0 ->
    session_time (advance c dt) - k_last_pong c > v ->
    exists c' st, st <> SOk /\ loop cf app (StTimeout dt :: rest) c = finish app c' st /\
                  forall r, loop cf app (StRead dt r :: rest) c = finish app c' st.
  Proof.
    intros Hc Hr Hv Hn Hd.
    assert (Hr' : k_ready (advance c dt) = true) by exact Hr.
    assert (Hst : snd (regular cf app (advance c dt)) <> SOk).
    { intros Hok. destruct (regular_ok_means_not_due cf app (advance c dt) Hr' Hok) as [_ B].
      specialize (B v Hv Hn). change (k_last_pong (advance c dt)) with (k_last_pong c) in B. lia. }
    destruct (loop_left_after_regular dt rest c Hc Hst) as [L1 L2].
    exists (fst (regular cf app (advance c dt))), (snd (regular cf app (advance c dt))). auto.
  Qed.
End WithCfg.
