(* The send/close API of the connection model: what an accepted call writes, what a refused call leaves alone. *)
From Coq Require Import List NArith ZArith Arith Lia Bool.
From Coq.Strings Require Import Byte.
From RecordUpdate Require Import RecordSet.
From Model Require Import Bytes Utf8 Frame Parser FrameParser Response Conn.
From Proofs Require Import BytesFacts FrameFacts.
Import ListNotations RecordSetNotations.
Open Scope N_scope.

Definition next_key (c : conn) : bytes := match k_keys c with k :: _ => k | [] => [x00; x00; x00; x00] end.
Definition keys_ok (c : conn) : Prop := Forall (fun k => length k = 4%nat) (k_keys c).

Lemma next_key_length c : keys_ok c -> length (next_key c) = 4%nat.
Proof. unfold keys_ok, next_key. destruct (k_keys c); intros H; [reflexivity|]. inversion H; auto. Qed.

(* write(): either refuses and leaves everything alone, or performs exactly one sendall *)
Lemma write_cases c data fl :
  (exists x, write c data fl = (c, Some x) /\ (x = XUnavailable \/ x = XClosed \/ x = XClosing)) \/
  (exists c', write c data fl = (c', None) /\ k_tr c' = TWrite data :: k_tr c /\ k_closed c = false /\ k_closing c = false /\ k_sock c = true) \/
  (exists c', write c data fl = (c', Some XTransportFail) /\ k_tr c' = TWriteFail data :: k_tr c).
Proof.
  unfold write. destruct (k_sock c) eqn:Es; cbn [negb].
  2:{ left. eexists; split; [reflexivity|auto]. }
  destruct (k_closed c) eqn:Ec. { left. eexists; split; [reflexivity|auto]. }
  destruct (k_closing c) eqn:Eg. { left. eexists; split; [reflexivity|auto]. }
  right.
  set (c1 := if fl then _ else c).
  assert (Htr : k_tr c1 = k_tr c) by (unfold c1; destruct fl; reflexivity).
  unfold pop_wfault. destruct (k_wfaults c1) as [|w ws] eqn:Ew.
  - left. eexists. split; [reflexivity|]. cbn. rewrite Htr. auto.
  - destruct w.
    + left. eexists. split; [reflexivity|]. cbn. rewrite Htr. auto.
    + right. eexists. split; [reflexivity|]. cbn. rewrite Htr. auto.
    + right. eexists. split; [reflexivity|]. cbn. rewrite Htr. auto.
Qed.

(* an accepted send_frame writes exactly one frame: Frame.build with the next masking key *)
Theorem send_frame_accepted c op rsv1 p c' :
  send_frame c op rsv1 p = (c', None) -> k_tr c' = TWrite (build op rsv1 (next_key c) p) :: k_tr c.
Proof.
  unfold send_frame, pop_key, next_key. destruct (k_keys c) as [|k ks] eqn:Ek.
  - intros H. destruct (write_cases c (build op rsv1 [x00; x00; x00; x00] p) (op =? OP_CLOSE)) as [(x & E & _)|[(c2 & E & Ht & _)|(c2 & E & _)]];
      rewrite E in H; inversion H; subst. exact Ht.
  - intros H. set (c1 := c <| k_keys := ks |>) in *.
    destruct (write_cases c1 (build op rsv1 k p) (op =? OP_CLOSE)) as [(x & E & _)|[(c2 & E & Ht & _)|(c2 & E & _)]];
      rewrite E in H; inversion H; subst. exact Ht.
Qed.

(* a refused send_frame writes nothing *)
Theorem send_frame_refused c op rsv1 p c' x :
  send_frame c op rsv1 p = (c', Some x) -> x <> XTransportFail -> k_tr c' = k_tr c.
Proof.
  unfold send_frame, pop_key. destruct (k_keys c) as [|k ks].
  - intros H Hx. destruct (write_cases c (build op rsv1 [x00; x00; x00; x00] p) (op =? OP_CLOSE)) as [(y & E & _)|[(c2 & E & _)|(c2 & E & _)]];
      rewrite E in H; inversion H; subst; [reflexivity|congruence].
  - intros H Hx. set (c1 := c <| k_keys := ks |>) in *.
    destruct (write_cases c1 (build op rsv1 k p) (op =? OP_CLOSE)) as [(y & E & _)|[(c2 & E & _)|(c2 & E & _)]];
      rewrite E in H; inversion H; subst; [reflexivity|congruence].
Qed.

Lemma send_frame_no_value_error c op r p : snd (send_frame c op r p) <> Some XValueError.
Proof.
  unfold send_frame, pop_key. destruct (k_keys c) as [|k ks].
  - destruct (write_cases c (build op r [x00; x00; x00; x00] p) (op =? OP_CLOSE)) as [(x & E & Hx)|[(c2 & E & _)|(c2 & E & _)]];
      rewrite E; cbn [snd]; try discriminate; destruct Hx as [Hx|[Hx|Hx]]; subst x; discriminate.
  - destruct (write_cases (c <| k_keys := ks |>) (build op r k p) (op =? OP_CLOSE)) as [(x & E & Hx)|[(c2 & E & _)|(c2 & E & _)]];
      rewrite E; cbn [snd]; try discriminate; destruct Hx as [Hx|[Hx|Hx]]; subst x; discriminate.
Qed.

(* oversize control payloads and close reasons are refused with ValueError and change nothing at all *)
Theorem control_oversize_refused c p : 125 < blen p ->
  api_call c (CSendPing p) = (c, Some XValueError) /\ api_call c (CSendPong p) = (c, Some XValueError).
Proof. intros H. cbn [api_call]. apply N.ltb_lt in H. rewrite H. split; reflexivity. Qed.

Theorem close_oversize_refused c code reason :
  k_closed c = false -> k_closing c = false -> 125 < blen (close_payload code reason) ->
  api_call c (CClose code reason) = (c, Some XValueError).
Proof. intros Hc Hg H. cbn [api_call]. unfold ws_close. rewrite Hc, Hg. apply N.ltb_lt in H. rewrite H. reflexivity. Qed.

(* data sends: RSV1 exactly when compression was negotiated and requested; otherwise the payload goes out as given *)
Theorem send_data_plain c op p z c' :
  (k_deflate c = None \/ z = false) -> send_data c op p z = (c', None) ->
  k_tr c' = TWrite (build op false (next_key c) p) :: k_tr c.
Proof.
  intros H E. unfold send_data in E. destruct (k_deflate c) as [d|]; [|apply send_frame_accepted; exact E].
  destruct H as [H|H]; [discriminate|]. subst z. apply send_frame_accepted; exact E.
Qed.

Theorem send_data_compressed c op p d c' :
  k_deflate c = Some d -> send_data c op p true = (c', None) ->
  exists z, k_tr c' = TWrite (build op true (next_key c) z) :: TDeflate (k_zout c) p :: k_tr c /\
            z = match k_ctape c with z0 :: _ => z0 | [] => [] end.
Proof.
  intros Hd E. unfold send_data in E. rewrite Hd in E.
  destruct (k_ctape c) as [|z0 zs] eqn:Et; destruct (c_reset d);
    apply send_frame_accepted in E; eexists; (split; [exact E|reflexivity]).
Qed.

(* put together with the codec theorem: what an accepted uncompressed call writes is decoded by the RFC 6455
   reference server into exactly one frame -- FIN set, masked with the drawn key, shortest length form, reserved bits
   clear, the caller's payload -- with nothing left over *)
Corollary accepted_call_decodes c op p z c' :
  keys_ok c -> op < 16 -> blen p < 9223372036854775808 ->
  (k_deflate c = None \/ z = false) -> send_data c op p z = (c', None) ->
  exists w, k_tr c' = TWrite w :: k_tr c /\ server_decode w = Some (client_frame op false (next_key c) p, []).
Proof.
  intros Hk Hop Hl Hz E. exists (build op false (next_key c) p). split.
  - eapply send_data_plain; eauto.
  - apply build_roundtrip; auto. apply next_key_length; exact Hk.
Qed.
