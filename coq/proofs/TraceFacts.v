(* How the trace grows: every function only appends, and what it may append. *)
From Coq Require Import List NArith ZArith Lia Bool.
From Coq.Strings Require Import Byte.
From RecordUpdate Require Import RecordSet.
From Model Require Import Bytes Utf8 Frame Parser FrameParser Response Conn.
From Proofs Require Import ConnFacts ApiFacts.
Import ListNotations RecordSetNotations.
Open Scope N_scope.

(* c' extends the trace of c by items that all satisfy ok (most recent first) *)
Definition ext_by (ok : titem -> Prop) (c c' : conn) : Prop := exists l, k_tr c' = l ++ k_tr c /\ Forall ok l.

Lemma ext_refl (ok : titem -> Prop) c : ext_by ok c c.
Proof. exists []. split; [reflexivity|constructor]. Qed.
Lemma ext_trans (ok : titem -> Prop) a b c : ext_by ok a b -> ext_by ok b c -> ext_by ok a c.
Proof.
  intros (l1 & E1 & F1) (l2 & E2 & F2). exists (l2 ++ l1). split.
  - rewrite E2, E1, app_assoc. reflexivity.
  - apply Forall_app; split; assumption.
Qed.
Lemma ext_emit (ok : titem -> Prop) c x : ok x -> ext_by ok c (emit x c).
Proof. intros H. exists [x]. split; [reflexivity|constructor; [exact H|constructor]]. Qed.
Lemma ext_field (ok : titem -> Prop) c c' : k_tr c' = k_tr c -> ext_by ok c c'.
Proof. intros H. exists []. split; [exact H|constructor]. Qed.

(* items that are not events at all *)
Definition not_event (x : titem) : Prop := match x with TEv _ => False | _ => True end.
(* items the session may add on its own between two messages: no message, no error, no lifecycle event *)
Definition housekeeping (x : titem) : Prop :=
  match x with TEv EvPoll | TEv EvUnresponsive => True | TEv _ => False | _ => True end.

Lemma ext_close_socket_gen (ok : titem -> Prop) : ok TSockClose -> forall c, ext_by ok c (close_socket c).
Proof.
  intros H c. unfold close_socket. destruct (k_sock c); [|apply ext_refl].
  exists [TSockClose]. split; [reflexivity|constructor; [exact H|constructor]].
Qed.

Ltac ext_inst L ok0 :=
  first [eapply L with (P := ext_by ok0) (ok_item := ok0) | eapply L with (P := ext_by ok0)];
  try exact (ext_refl ok0); try exact (ext_trans ok0);
  try (apply ext_close_socket_gen; exact I);
  try (intros; apply send_from_emit with (ok_item := ok0); try exact (ext_refl ok0); try exact (ext_trans ok0);
       try (intros; apply ext_emit; assumption); try (intros; apply ext_field; reflexivity); try (intros; exact I));
  try (intros; apply ext_emit; assumption);
  try (intros; apply ext_field; reflexivity);
  try (intros; exact I).

Lemma ext_send_frame (ok : titem -> Prop) c op r p : (forall w, ok (TWrite w)) -> (forall w, ok (TWriteFail w)) ->
  ext_by ok c (fst (send_frame c op r p)).
Proof. intros H1 H2. apply send_from_emit with (ok_item := ok); auto; try exact (ext_refl ok); try exact (ext_trans ok); try (intros; apply ext_emit; assumption); try (intros; apply ext_field; reflexivity). Qed.

Lemma ext_api_call c a : ext_by not_event c (fst (api_call c a)).
Proof. ext_inst fr_api_call not_event. Qed.
Lemma ext_ws_close c code reason : ext_by not_event c (fst (ws_close c code reason)).
Proof. ext_inst fr_ws_close not_event. Qed.
Lemma ext_do_actions c acts : ext_by not_event c (fst (do_actions c acts)).
Proof. ext_inst fr_do_actions not_event. Qed.
Lemma ext_close_socket c : ext_by not_event c (close_socket c).
Proof. ext_inst fr_close_socket not_event. Qed.
Lemma ext_on_disconnect c : ext_by not_event c (on_disconnect c).
Proof. ext_inst fr_on_disconnect not_event. Qed.

Lemma not_event_housekeeping x : not_event x -> housekeeping x.
Proof. destruct x; simpl; auto. contradiction. Qed.
Lemma ext_weaken (ok1 ok2 : titem -> Prop) c c' : (forall x, ok1 x -> ok2 x) -> ext_by ok1 c c' -> ext_by ok2 c c'.
Proof. intros H (l & E & F). exists l. split; [exact E|]. eapply Forall_impl; eauto. Qed.

Section WithCfg.
  Variable cf : cfg.
  Variable app : strategy.

  Lemma ext_regular c : ext_by housekeeping c (fst (regular cf app c)).
  Proof. ext_inst fr_regular housekeeping. Qed.

  (* handing an event to the application: the event itself, then whatever the application's calls write *)
  Lemma deliver_trace c e : exists l, k_tr (fst (deliver app c e)) = l ++ TEv e :: k_tr c /\ Forall not_event l.
  Proof.
    unfold deliver. destruct (ext_do_actions (emit (TEv e) c) (app (k_tr (emit (TEv e) c)))) as (l & E & F).
    exists l. split; [exact E|exact F].
  Qed.

  (* the ProtocolError path of WebSocket.feed: exactly one ProtocolError event; after it only the application's own
     writes, housekeeping events and the library's Close(1002); and the loop over the stream never continues *)
  Theorem raise_in_feed_trace c e :
    exists l, k_tr (fst (raise_in_feed cf app c e)) =
              l ++ TEv (EvProtocolError (match e with MCritical => true | MProtocol => false end)) :: k_tr c
              /\ Forall housekeeping l.
  Proof.
    assert (G : forall b post, (forall c1, ext_by not_event c1 (fst (post c1))) ->
              exists l, k_tr (fst (handler_yield cf app c (EvProtocolError b) post)) = l ++ TEv (EvProtocolError b) :: k_tr c
                        /\ Forall housekeeping l).
    { intros b post Hpost. unfold handler_yield, in_feed_yield. cbn [on_event].
      destruct (deliver_trace c (EvProtocolError b)) as (l1 & E1 & F1).
      destruct (deliver app c (EvProtocolError b)) as [c1 st1]. cbn [fst] in E1.
      destruct st1; cbv beta iota.
      - destruct (ext_regular c1) as (l2 & E2 & F2). destruct (regular cf app c1) as [c2 st2]. cbn [fst] in E2.
        destruct st2; cbv beta iota; cbn [fst].
        + destruct (Hpost c2) as (l3 & E3 & F3). exists (l3 ++ l2 ++ l1). split.
          * rewrite E3, E2, E1, !app_assoc. reflexivity.
          * repeat (apply Forall_app; split); auto; eapply Forall_impl; try exact not_event_housekeeping; eauto.
        + exists (l2 ++ l1). split; [rewrite E2, E1, app_assoc; reflexivity|].
          apply Forall_app; split; auto. eapply Forall_impl; try exact not_event_housekeeping; eauto.
        + exists (l2 ++ l1). split; [rewrite E2, E1, app_assoc; reflexivity|].
          apply Forall_app; split; auto. eapply Forall_impl; try exact not_event_housekeeping; eauto.
      - exists l1. split; [exact E1|]. eapply Forall_impl; try exact not_event_housekeeping; eauto.
      - exists l1. split; [exact E1|]. eapply Forall_impl; try exact not_event_housekeeping; eauto. }
    destruct e; unfold raise_in_feed; apply G; intros c1; cbn [fst]; [apply ext_refl|apply ext_ws_close].
  Qed.

  (* C14: with automatic pongs on and the write accepted, the Pong goes out immediately before the Ping event *)
  Theorem ping_event_preceded_by_pong c p c0 :
    c_auto_pong cf = true -> api_call c (CSendPong p) = (c0, None) ->
    exists l, k_tr (fst (in_feed_yield cf app c (EvPing p))) =
              l ++ TEv (EvPing p) :: TWrite (build OP_PONG false (next_key c) p) :: k_tr c
              /\ Forall housekeeping l.
  Proof.
    intros Ha Hc. unfold in_feed_yield. cbn [on_event]. rewrite Ha, Hc.
    assert (Hw : k_tr c0 = TWrite (build OP_PONG false (next_key c) p) :: k_tr c).
    { cbn [api_call] in Hc. destruct (125 <? blen p); [discriminate|]. apply send_frame_accepted in Hc. exact Hc. }
    destruct (deliver_trace c0 (EvPing p)) as (l1 & E1 & F1).
    destruct (deliver app c0 (EvPing p)) as [c1 st1]. cbn [fst] in E1.
    destruct st1; cbv beta iota; cbn [fst].
    - destruct (ext_regular c1) as (l2 & E2 & F2). exists (l2 ++ l1). split.
      + rewrite E2, E1, Hw, app_assoc. reflexivity.
      + apply Forall_app; split; auto. eapply Forall_impl; try exact not_event_housekeeping; eauto.
    - exists l1. split; [rewrite E1, Hw; reflexivity|]. eapply Forall_impl; try exact not_event_housekeeping; eauto.
    - exists l1. split; [rewrite E1, Hw; reflexivity|]. eapply Forall_impl; try exact not_event_housekeeping; eauto.
  Qed.

  (* with automatic pongs off the library writes nothing for a Ping: the trace grows by the event only (plus what the
     application and the housekeeping add afterwards) *)
  Theorem ping_without_auto_pong c p : c_auto_pong cf = false ->
    exists l, k_tr (fst (in_feed_yield cf app c (EvPing p))) = l ++ TEv (EvPing p) :: k_tr c /\ Forall housekeeping l.
  Proof.
    intros Ha. unfold in_feed_yield. cbn [on_event]. rewrite Ha.
    destruct (deliver_trace c (EvPing p)) as (l1 & E1 & F1).
    destruct (deliver app c (EvPing p)) as [c1 st1]. cbn [fst] in E1.
    destruct st1; cbv beta iota; cbn [fst].
    - destruct (ext_regular c1) as (l2 & E2 & F2). exists (l2 ++ l1). split.
      + rewrite E2, E1, app_assoc. reflexivity.
      + apply Forall_app; split; auto. eapply Forall_impl; try exact not_event_housekeeping; eauto.
    - exists l1. split; [exact E1|]. eapply Forall_impl; try exact not_event_housekeeping; eauto.
    - exists l1. split; [exact E1|]. eapply Forall_impl; try exact not_event_housekeeping; eauto.
  Qed.

  (* a Pong that cannot be written (closing, closed, transport failure) does not disturb the event stream: the status and
     the event are the same as when it can *)
  Theorem pong_failure_is_silent c p c0 x : x <> XValueError ->
    api_call c (CSendPong p) = (c0, Some x) -> snd (on_event cf c (EvPing p)) = SOk.
  Proof.
    intros Hx Hc. cbn [on_event]. destruct (c_auto_pong cf); [|reflexivity]. rewrite Hc. destruct x; try reflexivity. congruence.
  Qed.
End WithCfg.
