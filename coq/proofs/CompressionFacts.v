(* Losslessness of the permessage-deflate bookkeeping, for every message history and every fragmentation,
   under the stated laws of the zlib oracle. *)
From Coq Require Import List NArith Bool Lia.
From Coq.Strings Require Import Byte.
From RecordUpdate Require Import RecordSet.
From Model Require Import Bytes Frame Response Conn Compression.
From Proofs Require Import ConnFacts ApiFacts.
Import ListNotations RecordSetNotations.

Section Zlib.
  Variable zctx : Type.
  Variable fresh : zctx.
  Variable deflate : zctx -> bytes -> bytes * zctx.
  Variable inflate : zctx -> bytes -> option (bytes * zctx).
  (* in_sync c d: the inflater context d has consumed exactly what the deflater context c has produced, and the window
     sizes are compatible (this is where the negotiated window bits live: they are parameters of the oracle) *)
  Variable in_sync : zctx -> zctx -> Prop.
  Hypothesis sync_fresh : in_sync fresh fresh.
  Hypothesis sync_step : forall c d m z c', in_sync c d -> deflate c m = (z, c') ->
    exists d', inflate d z = Some (m, d') /\ in_sync c' d'.

  (* any way of cutting each message's wire payload into fragments *)
  Definition fragmented (ws : list (wmsg)) (fs : list (bool * list bytes)) : Prop :=
    Forall2 (fun w f => fst f = fst w /\ concat (snd f) = snd w) ws fs.

  Theorem transfer_lossless negotiated nct : forall msgs c d fs,
    in_sync c d -> fragmented (send_all zctx fresh deflate negotiated nct c msgs) fs ->
    recv_all zctx fresh inflate nct d fs = Some (map fst msgs).
  Proof.
    induction msgs as [|[m z] rest IH]; intros c d fs Hs Hf.
    - inversion Hf; subst. reflexivity.
    - cbn [send_all] in Hf. unfold send1 in Hf.
      destruct (negotiated && z) eqn:Ez.
      + destruct (deflate c m) as [zz c'] eqn:Ed.
        inversion Hf as [|w f ws' fs' (Hr & Hc) Hrest]; subst. destruct f as [r frs]. cbn [fst snd] in *. subst r.
        destruct (sync_step c d m zz c' Hs Ed) as (d' & Hi & Hs').
        cbn [recv_all]. unfold recv1. rewrite Hc, Hi.
        assert (Hnext : in_sync (if nct then fresh else c') (if nct then fresh else d')) by (destruct nct; auto).
        rewrite (IH _ _ _ Hnext Hrest). reflexivity.
      + inversion Hf as [|w f ws' fs' (Hr & Hc) Hrest]; subst. destruct f as [r frs]. cbn [fst snd] in *. subst r.
        cbn [recv_all]. unfold recv1. rewrite Hc. rewrite (IH _ _ _ Hs Hrest). reflexivity.
  Qed.

  (* without negotiation, or with compress=False, RSV1 is never set and the payload travels as given *)
  Theorem no_rsv1_without_negotiation nct c m z : fst (fst (send1 zctx fresh deflate false nct c m z)) = false.
  Proof. reflexivity. Qed.
  Theorem no_rsv1_when_not_requested negotiated nct c m :
    fst (send1 zctx fresh deflate negotiated nct c m false) = (false, m).
  Proof. unfold send1. rewrite andb_false_r. reflexivity. Qed.
End Zlib.

(* ---------- the connection model uses the oracle exactly this way ---------- *)
(* each compressed send consumes one result of the deflate oracle, logs the message and the context epoch it went
   through, and moves to a new epoch iff client_no_context_takeover was negotiated *)
Theorem send_data_epoch c op p d :
  k_deflate c = Some d ->
  let c' := fst (send_data c op p true) in
  k_zout c' = (if c_reset d then N.succ (k_zout c) else k_zout c) /\
  k_ctape c' = tl (k_ctape c).
Proof.
  intros Hd. unfold send_data. rewrite Hd.
  assert (Hk : forall c0 rsv z, k_zout (fst (send_frame c0 op rsv z)) = k_zout c0 /\ k_ctape (fst (send_frame c0 op rsv z)) = k_ctape c0).
  { intros c0 rsv z.
    set (Q := fun a b : conn => k_zout b = k_zout a /\ k_ctape b = k_ctape a).
    assert (Qr : forall a, Q a a) by (intros; split; reflexivity).
    assert (Qt : forall a b c1, Q a b -> Q b c1 -> Q a c1) by (intros a b c1 (A1 & A2) (B1 & B2); split; congruence).
    change (Q c0 (fst (send_frame c0 op rsv z))).
    apply send_from_emit with (ok_item := fun _ => True); auto; try (intros; split; reflexivity). }
  destruct (k_ctape c) as [|z0 zs] eqn:Et; destruct (c_reset d); cbn [fst];
    match goal with |- context [send_frame ?c0 op true ?z] => destruct (Hk c0 true z) as [H1 H2]; rewrite H1, H2 end; cbn; rewrite ?Et; auto.
Qed.

(* the parameters: absent means 15; out-of-range or non-numeric values are refused (the upgrade is Rejected) *)
Theorem wbits_in_range opts k n : get_wbits opts k = Some n -> (8 <= n <= 15)%N.
Proof.
  unfold get_wbits. destruct (parse_int _) as [v|]; [|discriminate].
  destruct ((v <? 8)%N || (15 <? v)%N) eqn:E; [discriminate|].
  intros H; inversion H; subst. apply orb_false_iff in E as [E1 E2].
  apply N.ltb_ge in E1. apply N.ltb_ge in E2. lia.
Qed.

(* ---------- the receiving side of the connection model ---------- *)
(* Message.build on a message whose first frame has RSV1, on a connection that negotiated the extension: exactly one
   Deflate.decompress call with the payloads of all fragments in arrival order, in the current context epoch; exactly one
   result of the inflate oracle is consumed; the context moves to a new epoch when the peer ended its DEFLATE stream in
   this message and (again) when server_no_context_takeover was negotiated; a zlib error is a critical protocol error,
   anything else is judged on the INFLATED payload (a text message by the UTF-8 check of what was inflated) *)
Definition bump (b : bool) (n : N) : N := if b then N.succ n else n.

Lemma build_message_fst c frames :
  fst (build_message c frames) =
  fst (match f_rsv1 (hd {| f_fin := true; f_rsv1 := false; f_rsv2 := false; f_rsv3 := false; f_op := 0; f_key := None; f_payload := [] |} frames), k_deflate c with
       | true, Some d => inflate c d (map f_payload frames)
       | _, _ => (c, Some (concat (map f_payload frames)))
       end).
Proof.
  unfold build_message.
  match goal with |- context [let '(c1, payload) := ?X in _] => destruct X as [c1 [p|]] end; cbn [fst]; [|reflexivity].
  repeat match goal with |- context [if ?b then _ else _] => destruct b end; try reflexivity.
  destruct p as [|a [|b r]]; try reflexivity. destruct (Utf8.utf8_validb r); reflexivity.
Qed.

Theorem build_message_compressed c d f0 rest :
  k_deflate c = Some d -> f_rsv1 f0 = true ->
  let frames := f0 :: rest in
  let c' := fst (build_message c frames) in
  k_tr c' = TInflate (k_zin c) (map f_payload frames) :: k_tr c /\
  k_ztape c' = tl (k_ztape c) /\
  match k_ztape c with
  | Some (out, ended) :: _ =>
      k_zin c' = bump (d_reset d) (bump ended (k_zin c)) /\
      (f_op f0 = OP_BINARY -> snd (build_message c frames) = inl (MBinary out)) /\
      (f_op f0 = OP_TEXT -> snd (build_message c frames) = if Utf8.utf8_validb out then inl (MText out) else inr MCritical)
  | None :: _ | [] => k_zin c' = k_zin c /\ snd (build_message c frames) = inr MCritical
  end.
Proof.
  intros Hd Hr. cbv zeta. rewrite build_message_fst. cbn [hd]. rewrite Hr, Hd.
  unfold build_message. cbn [hd]. rewrite Hr, Hd. unfold inflate.
  destruct (k_ztape c) as [|[[out ended]|] zs] eqn:Et.
  - cbn. rewrite Et. auto.
  - cbn. rewrite Et. cbn.
    destruct ended, (d_reset d); cbn; (split; [reflexivity|]); (split; [reflexivity|]); (split; [reflexivity|]);
      (split; [intros ->; reflexivity|intros ->; cbn; destruct (Utf8.utf8_validb out); reflexivity]).
  - cbn. rewrite Et. cbn. auto.
Qed.

(* ... and a message without RSV1 never touches the inflate oracle, negotiated or not *)
Theorem build_message_plain_untouched c f0 rest :
  f_rsv1 f0 = false ->
  let c' := fst (build_message c (f0 :: rest)) in
  c' = c.
Proof.
  intros Hr. cbv zeta. unfold build_message. cbn [hd]. rewrite Hr.
  repeat match goal with |- context [if ?b then _ else _] => destruct b end; try reflexivity;
    destruct (concat (map f_payload (f0 :: rest))) as [|a [|b r]]; try reflexivity;
    repeat match goal with |- context [if ?b then _ else _] => destruct b end; reflexivity.
Qed.

(* ---------- control frames are never compressed ---------- *)
Lemma send_frame_trace c op r p :
  let c' := fst (send_frame c op r p) in
  k_tr c' = k_tr c \/ k_tr c' = TWrite (build op r (next_key c) p) :: k_tr c \/
  k_tr c' = TWriteFail (build op r (next_key c) p) :: k_tr c.
Proof.
  cbv zeta. unfold send_frame, pop_key, next_key. destruct (k_keys c) as [|k ks] eqn:Ek.
  - destruct (write_cases c (build op r [x00; x00; x00; x00] p) (op =? OP_CLOSE)) as [(x & E & _)|[(c2 & E & Ht & _)|(c2 & E & Ht)]];
      rewrite E; cbn [fst]; auto.
  - set (c1 := c <| k_keys := ks |>).
    destruct (write_cases c1 (build op r k p) (op =? OP_CLOSE)) as [(x & E & _)|[(c2 & E & Ht & _)|(c2 & E & Ht)]];
      rewrite E; cbn [fst]; auto.
Qed.

Lemma send_frame_zlib c op r p :
  k_zout (fst (send_frame c op r p)) = k_zout c /\ k_ctape (fst (send_frame c op r p)) = k_ctape c.
Proof.
  set (Q := fun a b : conn => k_zout b = k_zout a /\ k_ctape b = k_ctape a).
  assert (Qr : forall a, Q a a) by (intros; split; reflexivity).
  assert (Qt : forall a b c1, Q a b -> Q b c1 -> Q a c1) by (intros a b c1 (A1 & A2) (B1 & B2); split; congruence).
  change (Q c (fst (send_frame c op r p))).
  apply send_from_emit with (ok_item := fun _ => True); auto; try (intros; split; reflexivity).
Qed.

Definition control_call (a : call) : option (N * bytes) :=
  match a with
  | CSendPing p => Some (OP_PING, p)
  | CSendPong p => Some (OP_PONG, p)
  | CClose code reason => Some (OP_CLOSE, close_payload code reason)
  | _ => None
  end.

(* send_ping, send_pong and close() -- with or without a negotiated permessage-deflate, whatever its parameters -- never go
   through the compressor: the deflate context and its oracle tape are untouched, and what is written (if anything) is the
   frame built with RSV1 clear from the payload as given *)
Theorem control_frames_never_compressed c a op p :
  control_call a = Some (op, p) ->
  let c' := fst (api_call c a) in
  k_zout c' = k_zout c /\ k_ctape c' = k_ctape c /\
  (k_tr c' = k_tr c \/ k_tr c' = TWrite (build op false (next_key c) p) :: k_tr c \/
   k_tr c' = TWriteFail (build op false (next_key c) p) :: k_tr c).
Proof.
  intros Ha. cbv zeta. destruct a as [? ?|? ?|q|q|code reason]; try discriminate; cbn [control_call] in Ha; inversion Ha; subst; cbn [api_call].
  - destruct (125 <? blen p); [cbn; auto|].
    destruct (send_frame_zlib c OP_PING false p) as [Z1 Z2]. split; [exact Z1|]. split; [exact Z2|]. apply send_frame_trace.
  - destruct (125 <? blen p); [cbn; auto|].
    destruct (send_frame_zlib c OP_PONG false p) as [Z1 Z2]. split; [exact Z1|]. split; [exact Z2|]. apply send_frame_trace.
  - unfold ws_close. destruct (k_closed c); [cbn; auto|]. destruct (k_closing c); [cbn; auto|].
    destruct (125 <? blen (close_payload code reason)); [cbn; auto|].
    destruct (send_frame_zlib c OP_CLOSE false (close_payload code reason)) as [Z1 Z2].
    pose proof (send_frame_trace c OP_CLOSE false (close_payload code reason)) as T. cbv zeta in T.
    destruct (send_frame c OP_CLOSE false (close_payload code reason)) as [c1 r]. cbn [fst] in *. auto.
Qed.

Lemma build_first_byte op key p : op < 16 -> hd x00 (build op false key p) = n2b (128 + op).
Proof. intros H. unfold build, byte0. cbn [hd]. f_equal; unfold bit; lia. Qed.
