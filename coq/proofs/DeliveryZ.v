(* C01 / C06 on a connection that negotiated permessage-deflate: a conforming server stream -- messages compressed or not,
   fragmented or not, control frames in between, any legal length form -- is decoded frame by frame and every message is
   delivered once, in order: an uncompressed one byte-exact, a compressed one as what the inflater (the oracle tape of the
   model, consumed strictly in order, one result per compressed message) returns for its fragments. *)
From Coq Require Import List NArith ZArith Arith Lia Bool ZifyN ZifyNat.
From Coq.Strings Require Import Byte.
From RecordUpdate Require Import RecordSet.
From Model Require Import Bytes Utf8 Frame Parser FrameParser Response Conn.
From Proofs Require Import BytesFacts Utf8Facts ParserFacts FrameParserFacts FrameFacts ConnFacts ApiFacts TraceFacts DeliveryFacts CompressionFacts.
Import ListNotations RecordSetNotations.
Open Scope N_scope.

(* ---------- the header byte with RSV1 ---------- *)
Lemma byte0_z fin r1 op : op < 16 ->
  let n0 := b2n (byte0 fin r1 false false op) in
  (128 <=? n0) = fin /\ N.testbit n0 6 = r1 /\ N.testbit n0 5 = false /\ N.testbit n0 4 = false /\ n0 mod 16 = op.
Proof.
  intros H. apply op_cases in H. cbn [In] in H.
  destruct fin, r1; repeat (destruct H as [<-|H]; [vm_compute; repeat split; reflexivity|]); contradiction.
Qed.

(* a frame as a conforming server sends it on such a connection: unmasked, RSV2/RSV3 clear, RSV1 free *)
Definition zframe (f : frame) : Prop :=
  f_rsv2 f = false /\ f_rsv3 f = false /\ f_key f = None /\ f_op f < 16 /\ blen (f_payload f) < 9223372036854775808.

Definition hdr_z (f : frame) : hinfo :=
  {| h_fin := f_fin f; h_r1 := f_rsv1 f; h_r2 := false; h_r3 := false; h_op := f_op f; h_mask := false |}.

Lemma mk_frame_z f : zframe f -> mk_frame (hdr_z f) None (f_payload f) = f.
Proof. intros (B & C & D & _). destruct f; cbn in *; subst; reflexivity. Qed.

(* the parser at a frame boundary, compression enabled: no incremental UTF-8 validation takes place, the validator state
   stays where the handshake left it *)
Definition at_boundary_z (s : fpst) (t : bool) : Prop :=
  s = {| pg := {| fp_phase := FHdr; fp_is_text := t; fp_u := UAcc; fp_compression := true |};
         paw := AwBytes false; prem := 2; pbuf := [] |}.

(* one frame, in any legal length form, followed by anything *)
Theorem pull_one_frame_z s t f lf rest :
  at_boundary_z s t -> zframe f -> form_ok lf (blen (f_payload f)) = true ->
  validate_err true (hdr_z f) (blen (f_payload f)) = false ->
  exists s', fp_pull s (enc_frame f lf ++ rest) = Item (IFrame f) s' rest /\
             at_boundary_z s' (is_text_after f t).
Proof.
  intros Hs Hp Hf Hv. pose proof Hp as (P2 & P3 & P4 & P5 & P6).
  unfold enc_frame. rewrite P2, P3, P4.
  set (len := blen (f_payload f)) in *.
  pose proof (byte0_z (f_fin f) (f_rsv1 f) (f_op f) P5) as (B1 & B2 & B3 & B4 & B5). cbv zeta in *.
  set (g0 := {| fp_phase := FHdr; fp_is_text := t; fp_u := UAcc; fp_compression := true |}).
  assert (Tail : forall gph, fp_is_text gph = t -> fp_u gph = UAcc -> fp_compression gph = true ->
     exists s', after_resume fpg pitem perr (after_len gph (hdr_z f) len) (f_payload f ++ rest) fp_pull = Item (IFrame f) s' rest /\
                at_boundary_z s' (is_text_after f t)).
  { intros gph Et Eu Ec. unfold after_len.
    replace (9223372036854775807 <? len) with false by (symmetry; apply N.ltb_ge; lia).
    cbn [hdr_z h_mask]. unfold after_mask. rewrite Ec, Hv. cbn [hdr_z h_op].
    destruct (len =? 0) eqn:Ez.
    - apply N.eqb_eq in Ez. assert (Hnil : f_payload f = []) by (unfold len, blen in Ez; destruct (f_payload f); [reflexivity|cbn in Ez; lia]).
      unfold finish_frame. cbn [h_mask hdr_z h_fin h_op fp_compression fp_is_text fp_u fp_phase].
      rewrite ?Ec. cbn [negb andb]. cbn [after_resume]. rewrite Hnil. cbn [app].
      eexists. split; [rewrite <- Hnil at 1; rewrite (mk_frame_z f Hp); reflexivity|].
      unfold at_boundary_z, is_text_after. rewrite Et, Eu. reflexivity.
    - apply N.eqb_neq in Ez.
      assert (Hne : f_payload f <> []) by (intros E; unfold len, blen in Ez; rewrite E in Ez; cbn in Ez; congruence).
      cbn [after_resume]. unfold set_phase. cbn [fp_phase fp_is_text fp_u fp_compression negb andb].
      rewrite andb_false_r.
      match goal with |- context [fp_pull {| pg := ?g1; paw := AwBytes false; prem := len; pbuf := [] |} (f_payload f ++ rest)] =>
        pose proof (read_exact g1 false (f_payload f) rest Hne) as Hr end.
      cbv zeta in Hr. fold len in Hr. rewrite Hr. clear Hr.
      unfold fp_resume. cbn [fp_phase]. unfold finish_frame. cbn [hdr_z h_mask h_fin h_op fp_compression fp_is_text fp_u].
      rewrite ?Ec. cbn [negb andb after_resume]. rewrite (mk_frame_z f Hp).
      eexists. split; [reflexivity|].
      unfold at_boundary_z, is_text_after. rewrite ?Et, ?Eu. reflexivity. }
  unfold at_boundary_z in Hs. subst s. fold g0.
  destruct (len_field_cases lf len Hf) as [(-> & Hl & El)|[(-> & Hl & El)|(-> & Hl & El)]]; rewrite El.
  - change ((byte0 (f_fin f) (f_rsv1 f) false false (f_op f) :: [n2b len] ++ f_payload f) ++ rest)
      with ([byte0 (f_fin f) (f_rsv1 f) false false (f_op f); n2b len] ++ (f_payload f ++ rest)).
    pose proof (read_exact g0 false [byte0 (f_fin f) (f_rsv1 f) false false (f_op f); n2b len] (f_payload f ++ rest) ltac:(discriminate)) as Hr.
    cbv zeta in Hr. change (blen [byte0 (f_fin f) (f_rsv1 f) false false (f_op f); n2b len]) with 2 in Hr. rewrite Hr. clear Hr.
    unfold fp_resume. cbn [fp_phase g0 nth]. rewrite B1, B2, B3, B4, B5. rewrite (b2n_n2b len) by lia.
    replace (128 <=? len) with false by (symmetry; apply N.leb_gt; lia).
    rewrite (N.mod_small len 128) by lia.
    replace (len =? 126) with false by (symmetry; apply N.eqb_neq; lia).
    replace (len =? 127) with false by (symmetry; apply N.eqb_neq; lia).
    apply (Tail g0); reflexivity.
  - change ((byte0 (f_fin f) (f_rsv1 f) false false (f_op f) :: (n2b 126 :: be_encode 2 len) ++ f_payload f) ++ rest)
      with ([byte0 (f_fin f) (f_rsv1 f) false false (f_op f); n2b 126] ++ ((be_encode 2 len ++ f_payload f) ++ rest)).
    rewrite <- app_assoc.
    pose proof (read_exact g0 false [byte0 (f_fin f) (f_rsv1 f) false false (f_op f); n2b 126] (be_encode 2 len ++ (f_payload f ++ rest)) ltac:(discriminate)) as Hr.
    cbv zeta in Hr. change (blen [byte0 (f_fin f) (f_rsv1 f) false false (f_op f); n2b 126]) with 2 in Hr. rewrite Hr. clear Hr.
    unfold fp_resume at 1. cbn [fp_phase g0 nth]. rewrite B1, B2, B3, B4, B5.
    change (b2n (n2b 126)) with 126. change (128 <=? 126) with false. change (126 mod 128 =? 126) with true.
    cbn [after_resume set_phase].
    assert (Hbe : be_encode 2 len <> []) by (intros E; pose proof (be_encode_length 2 len) as L; rewrite E in L; discriminate).
    match goal with |- context [fp_pull {| pg := ?g1; paw := AwBytes false; prem := 2; pbuf := [] |} (be_encode 2 len ++ _)] =>
      pose proof (read_exact g1 false (be_encode 2 len) (f_payload f ++ rest) Hbe) as Hr end.
    cbv zeta in Hr. unfold blen in Hr at 1. rewrite be_encode_length in Hr. change (N.of_nat 2) with 2 in Hr. rewrite Hr. clear Hr.
    unfold fp_resume at 1. cbn [fp_phase set_phase]. rewrite be_roundtrip by (cbn; lia).
    match goal with |- context [after_len ?g1 ?hh len] => apply (Tail g1); reflexivity end.
  - change ((byte0 (f_fin f) (f_rsv1 f) false false (f_op f) :: (n2b 127 :: be_encode 8 len) ++ f_payload f) ++ rest)
      with ([byte0 (f_fin f) (f_rsv1 f) false false (f_op f); n2b 127] ++ ((be_encode 8 len ++ f_payload f) ++ rest)).
    rewrite <- app_assoc.
    pose proof (read_exact g0 false [byte0 (f_fin f) (f_rsv1 f) false false (f_op f); n2b 127] (be_encode 8 len ++ (f_payload f ++ rest)) ltac:(discriminate)) as Hr.
    cbv zeta in Hr. change (blen [byte0 (f_fin f) (f_rsv1 f) false false (f_op f); n2b 127]) with 2 in Hr. rewrite Hr. clear Hr.
    unfold fp_resume at 1. cbn [fp_phase g0 nth]. rewrite B1, B2, B3, B4, B5.
    change (b2n (n2b 127)) with 127. change (128 <=? 127) with false. change (127 mod 128 =? 126) with false. change (127 mod 128 =? 127) with true.
    cbn [after_resume set_phase].
    assert (Hbe : be_encode 8 len <> []) by (intros E; pose proof (be_encode_length 8 len) as L; rewrite E in L; discriminate).
    match goal with |- context [fp_pull {| pg := ?g1; paw := AwBytes false; prem := 8; pbuf := [] |} (be_encode 8 len ++ _)] =>
      pose proof (read_exact g1 false (be_encode 8 len) (f_payload f ++ rest) Hbe) as Hr end.
    cbv zeta in Hr. unfold blen in Hr at 1. rewrite be_encode_length in Hr. change (N.of_nat 8) with 8 in Hr. rewrite Hr. clear Hr.
    unfold fp_resume at 1. cbn [fp_phase set_phase]. rewrite be_roundtrip by (cbn; lia).
    match goal with |- context [after_len ?g1 ?hh len] => apply (Tail g1); reflexivity end.
Qed.

(* ====================================================================================================== *)
(* the reference reading of a conforming frame list on a compressed connection: [tape] = the results the inflater will
   give, one per compressed message, in order *)
Definition ztape_t := list (option (bytes * bool)).

Definition zpayload (fs : list frame) (tape : ztape_t) : option (bytes * ztape_t) :=
  match fs with
  | f0 :: _ =>
      if f_rsv1 f0 then match tape with Some (out, _) :: zs => Some (out, zs) | _ => None end
      else Some (payload_of fs, tape)
  | [] => None
  end.

Definition zcomplete (fs : list frame) (tape : ztape_t) (fin : bool) : option (list smsg * list frame * ztape_t) :=
  if fin then
    match zpayload fs tape with
    | None => None
    | Some (p, tape') =>
        if is_text_msg fs then (if utf8_validb p then Some ([SText p], [], tape') else None)
        else Some ([SBinary p], [], tape')
    end
  else Some ([], fs, tape).

Definition ref1z (open : list frame) (tape : ztape_t) (f : frame) : option (list smsg * list frame * ztape_t) :=
  if negb ((f_op f <? 16) && (blen (f_payload f) <? 9223372036854775808)) then None
  else if validate_err true (hdr_z f) (blen (f_payload f)) then None
  else if is_control (f_op f) then
    (if f_rsv1 f then None                                  (* control frames are never compressed (RFC 7692 6.1) *)
     else if f_op f =? OP_PING then Some ([SPing (f_payload f)], open, tape)
     else if f_op f =? OP_PONG then Some ([SPong (f_payload f)], open, tape)
     else None)                                             (* Close is not part of this theorem *)
  else
    let cont := f_op f =? OP_CONT in
    match open with
    | [] => if cont then None else zcomplete [f] tape (f_fin f)
    | _ :: _ => if negb cont then None
                else if f_rsv1 f then None                  (* RSV1 is set on the first fragment only (RFC 7692 6.1) *)
                else zcomplete (open ++ [f]) tape (f_fin f)
    end.

Fixpoint ref_messages_z (open : list frame) (tape : ztape_t) (fs : list frame) : option (list smsg * list frame * ztape_t) :=
  match fs with
  | [] => Some ([], open, tape)
  | f :: rest =>
      match ref1z open tape f with
      | None => None
      | Some (ms, open1, tape1) =>
          match ref_messages_z open1 tape1 rest with
          | None => None
          | Some (ms2, open2, tape2) => Some (ms ++ ms2, open2, tape2)
          end
      end
  end.

(* Message.build on a compressed message: one oracle result consumed, the rest of the state as it was *)
Lemma build_z c d fs f0 rest out ended zs :
  fs = f0 :: rest -> k_deflate c = Some d -> f_rsv1 f0 = true -> k_ztape c = Some (out, ended) :: zs ->
  (f_op f0 =? OP_TEXT) || (f_op f0 =? OP_BINARY) = true ->
  exists c', build_message c fs =
               (c', if f_op f0 =? OP_BINARY then inl (MBinary out)
                    else (if utf8_validb out then inl (MText out) else inr MCritical)) /\
             same_core c c' /\ k_ztape c' = zs /\ k_tr c' = TInflate (k_zin c) (map f_payload fs) :: k_tr c /\
             k_wfaults c' = k_wfaults c /\ k_keys c' = k_keys c.
Proof.
  intros -> Hd Hr Ht Hk. unfold build_message. cbn [hd]. rewrite Hr, Hd. unfold inflate.
  change (k_ztape (emit (TInflate (k_zin c) (map f_payload (f0 :: rest))) c)) with (k_ztape c). rewrite Ht.
  assert (Hop : f_op f0 = OP_BINARY \/ f_op f0 = OP_TEXT).
  { destruct (f_op f0 =? OP_TEXT) eqn:E1; [right; apply N.eqb_eq; exact E1|left; apply N.eqb_eq; exact Hk]. }
  destruct ended, (d_reset d); cbv zeta iota beta; destruct Hop as [-> | ->];
    change (OP_BINARY =? OP_BINARY) with true; change (OP_TEXT =? OP_BINARY) with false; change (OP_TEXT =? OP_TEXT) with true; cbv iota;
    (eexists; split; [try reflexivity; destruct (utf8_validb out); reflexivity|]);
    (split; [unfold same_core; cbn; tauto|]); cbn; auto.
Qed.

(* ---------- the inflate tape is touched by Message.build only ---------- *)
Definition same_zt (c c' : conn) : Prop := k_ztape c' = k_ztape c.
Ltac inst_zt L := first [eapply L with (P := same_zt) (ok_item := fun _ => True) | eapply L with (P := same_zt)];
                  try (intros; apply send_from_emit with (ok_item := fun _ => True));
                  try (intros c0; unfold close_socket; destruct (k_sock c0); reflexivity);
                  try (intros; reflexivity); try (unfold same_zt; intros; congruence); try (intros; exact I);
                  try (intros e0; destruct e0; exact I).

Lemma build_plain_hd c f0 rest : f_rsv1 f0 = false ->
  build_message c (f0 :: rest) =
    (c, let p := payload_of (f0 :: rest) in
        let op := f_op f0 in
        if op =? OP_BINARY then inl (MBinary p)
        else if op =? OP_TEXT then (if utf8_validb p then inl (MText p) else inr MCritical)
        else if op =? OP_CLOSE then
          match p with
          | [] => inl (MClose None [])
          | [_] => inr MProtocol
          | a :: b :: reason => if utf8_validb reason then inl (MClose (Some (be_decode [a; b])) reason) else inr MCritical
          end
        else if op =? OP_PING then inl (MPing p)
        else if op =? OP_PONG then inl (MPong p)
        else inl MOther).
Proof.
  intros H0. unfold build_message. cbn [hd]. rewrite H0. unfold payload_of. cbv zeta.
  repeat match goal with |- context [if ?b then _ else _] => destruct b end; try reflexivity;
    destruct (concat (map f_payload (f0 :: rest))) as [|a [|b r]]; try reflexivity; destruct (utf8_validb r); reflexivity.
Qed.

Section DeliveryZ.
  Variable cf : cfg.
  Variable app : strategy.
  Hypothesis app_benign : benign app.
  Hypothesis no_ping_timeout : zpos (c_ping_timeout cf) = None.

  Lemma zt_feed_yield c e : k_ztape (fst (feed_yield cf app c e (fun c1 => (c1, SOk)))) = k_ztape c.
  Proof. change (same_zt c (fst (feed_yield cf app c e (fun c1 => (c1, SOk))))). inst_zt fr_feed_yield. Qed.

  (* the connection between two frames: [open] = fragments of the open data message, [tape] = what the inflater will return *)
  Definition idle_z (d : deflate_cfg) (c : conn) (open : list frame) (tape : ztape_t) : Prop :=
    k_closed c = false /\ k_closing c = false /\ k_deflate c = Some d /\ k_sent_close_time c = None /\
    k_frames c = open /\ k_ztape c = tape /\ at_boundary_z (k_ps c) (is_text_msg open).

  (* what a yielded message event does to such a connection *)
  Lemma yield_z d c e :
    k_closed c = false -> k_closing c = false -> k_deflate c = Some d -> k_sent_close_time c = None ->
    (match e with EvPing p => blen p <= 125 | EvClosing _ _ | EvClosed _ _ | EvReady _ _ => False | _ => True end) ->
    is_msg_ev e = true ->
    exists c1, feed_yield cf app c e (fun c1 => (c1, SOk)) = (c1, SOk) /\
      k_ps c1 = k_ps c /\ k_frames c1 = k_frames c /\ k_closed c1 = false /\ k_closing c1 = false /\ k_deflate c1 = Some d /\
      k_sent_close_time c1 = None /\ k_ztape c1 = k_ztape c /\ k_sock c1 = k_sock c /\
      msg_events (k_tr c1) = e :: msg_events (k_tr c) /\
      (c_ping_rate cf = 0%Z -> c_auto_pong cf = true -> wok c -> wok c1 /\ writes (k_tr c1) = ev_reply e ++ writes (k_tr c)).
  Proof.
    intros Hcl Hcg Hd Hsc He Hme.
    pose proof (zt_feed_yield c e) as Z.
    destruct (yield_plain cf app app_benign no_ping_timeout c e Hsc He) as (c1 & E1 & (S1&S2&S3&S4&S5&S6&S7&S8) & M1 & W1).
    rewrite E1 in Z. cbn [fst] in Z. rewrite Hme in M1. exists c1. split; [exact E1|].
    repeat (split; [first [congruence | assumption]|]).
    intros R A W. exact (W1 R A Hcl Hcg W).
  Qed.

  (* a completed data message: Message.build (through the inflater when its first frame has RSV1), then the event *)
  Lemma complete_z d c0 c fs f0 rest0 tape ms open1 tape1 :
    fs = f0 :: rest0 -> (f_op f0 =? OP_TEXT) || (f_op f0 =? OP_BINARY) = true ->
    k_closed c0 = false -> k_closing c0 = false -> k_deflate c0 = Some d -> k_sent_close_time c0 = None ->
    k_ztape c0 = tape -> k_tr c0 = k_tr c -> k_sock c0 = k_sock c -> k_wfaults c0 = k_wfaults c -> k_keys c0 = k_keys c ->
    zcomplete fs tape true = Some (ms, open1, tape1) ->
    exists c1, (let '(c2, r) := build_message c0 fs in
                match r with inl m => on_message cf app c2 m | inr e => let '(c3, st) := raise_in_feed cf app c2 e in (c3, st, FBreak) end)
               = (c1, SOk, FContinue) /\
      k_ps c1 = k_ps c0 /\ k_frames c1 = k_frames c0 /\ k_closed c1 = false /\ k_closing c1 = false /\ k_deflate c1 = Some d /\
      k_sent_close_time c1 = None /\ k_ztape c1 = tape1 /\ k_sock c1 = k_sock c /\ open1 = [] /\
      msg_events (k_tr c1) = rev (map ev_of ms) ++ msg_events (k_tr c) /\ wfacts cf c c1 ms.
  Proof.
    intros Efs Hk Hcl Hcg Hd Hsc Hzt Htr Hsock Hwf Hkeys Hz. unfold zcomplete in Hz. subst fs. cbn [zpayload] in Hz.
    assert (Wok0 : wok c -> wok c0) by (unfold wok, keys_ok; rewrite Hsock, Hwf, Hkeys; tauto).
    assert (Etb : is_text_msg (f0 :: rest0) = (f_op f0 =? OP_TEXT)) by reflexivity.
    destruct (f_rsv1 f0) eqn:Er.
    - (* compressed: one oracle result *)
      destruct tape as [|[[out ended]|] zs]; try discriminate.
      destruct (build_z c0 d (f0 :: rest0) f0 rest0 out ended zs eq_refl Hd Er Hzt Hk)
        as (c2 & Eb & (S1&S2&S3&S4&S5&S6&S7&S8) & Z2 & T2 & F2 & K2).
      rewrite Eb.
      assert (Hcl2 : k_closed c2 = false) by congruence. assert (Hcg2 : k_closing c2 = false) by congruence.
      assert (Hd2 : k_deflate c2 = Some d) by congruence. assert (Hsc2 : k_sent_close_time c2 = None) by congruence.
      assert (Wok2 : wok c -> wok c2) by (intros W; specialize (Wok0 W); unfold wok, keys_ok in *; rewrite S8, F2, K2; exact Wok0).
      assert (M2 : msg_events (k_tr c2) = msg_events (k_tr c)) by (rewrite T2, Htr; reflexivity).
      assert (Wr2 : writes (k_tr c2) = writes (k_tr c)) by (rewrite T2, Htr; reflexivity).
      rewrite Etb in Hz.
      destruct (f_op f0 =? OP_TEXT) eqn:Et.
      + assert (Eb2 : (f_op f0 =? OP_BINARY) = false) by (apply N.eqb_eq in Et; rewrite Et; reflexivity).
        rewrite Eb2. destruct (utf8_validb out); [|discriminate]. inversion Hz; subst ms open1 tape1.
        unfold on_message.
        destruct (yield_z d c2 (EvText out) Hcl2 Hcg2 Hd2 Hsc2 I eq_refl) as (c1 & E1 & P1 & P2 & P3 & P4 & P5 & P6 & P7 & P8 & M1 & W1).
        rewrite E1. exists c1. split; [reflexivity|].
        repeat (split; [first [congruence | reflexivity]|]).
        split; [rewrite M1, M2; reflexivity|].
        intros R A W. destruct (W1 R A (Wok2 W)) as [W3 W4]. split; [exact W3|]. rewrite W4, Wr2. reflexivity.
      + cbn [orb] in Hk. rewrite Hk. inversion Hz; subst ms open1 tape1.
        unfold on_message.
        destruct (yield_z d c2 (EvBinary out) Hcl2 Hcg2 Hd2 Hsc2 I eq_refl) as (c1 & E1 & P1 & P2 & P3 & P4 & P5 & P6 & P7 & P8 & M1 & W1).
        rewrite E1. exists c1. split; [reflexivity|].
        repeat (split; [first [congruence | reflexivity]|]).
        split; [rewrite M1, M2; reflexivity|].
        intros R A W. destruct (W1 R A (Wok2 W)) as [W3 W4]. split; [exact W3|]. rewrite W4, Wr2. reflexivity.
    - (* not compressed: the payload as it came *)
      rewrite (build_plain_hd c0 f0 rest0 Er). cbv zeta. rewrite Etb in Hz.
      destruct (f_op f0 =? OP_TEXT) eqn:Et.
      + assert (Eb2 : (f_op f0 =? OP_BINARY) = false) by (apply N.eqb_eq in Et; rewrite Et; reflexivity).
        rewrite Eb2. destruct (utf8_validb (payload_of (f0 :: rest0))); [|discriminate]. inversion Hz; subst ms open1 tape1.
        unfold on_message.
        destruct (yield_z d c0 (EvText (payload_of (f0 :: rest0))) Hcl Hcg Hd Hsc I eq_refl) as (c1 & E1 & P1 & P2 & P3 & P4 & P5 & P6 & P7 & P8 & M1 & W1).
        rewrite E1. exists c1. split; [reflexivity|].
        repeat (split; [first [congruence | reflexivity]|]).
        split; [rewrite M1, Htr; reflexivity|].
        intros R A W. destruct (W1 R A (Wok0 W)) as [W3 W4]. split; [exact W3|]. rewrite W4, Htr. reflexivity.
      + cbn [orb] in Hk. rewrite Hk. inversion Hz; subst ms open1 tape1.
        unfold on_message.
        destruct (yield_z d c0 (EvBinary (payload_of (f0 :: rest0))) Hcl Hcg Hd Hsc I eq_refl) as (c1 & E1 & P1 & P2 & P3 & P4 & P5 & P6 & P7 & P8 & M1 & W1).
        rewrite E1. exists c1. split; [reflexivity|].
        repeat (split; [first [congruence | reflexivity]|]).
        split; [rewrite M1, Htr; reflexivity|].
        intros R A W. destruct (W1 R A (Wok0 W)) as [W3 W4]. split; [exact W3|]. rewrite W4, Htr. reflexivity.
  Qed.

  (* one conforming frame through WebsocketStream.feed and WebSocket.feed *)
  Theorem frame_step_z d c open tape f ms open1 tape1 :
    k_closed c = false -> k_closing c = false -> k_deflate c = Some d -> k_sent_close_time c = None ->
    k_frames c = open -> k_ztape c = tape -> data_head open ->
    ref1z open tape f = Some (ms, open1, tape1) ->
    exists c1, on_item cf app c (IFrame f) = (c1, SOk, FContinue) /\
               k_ps c1 = k_ps c /\ k_closed c1 = false /\ k_closing c1 = false /\ k_deflate c1 = Some d /\
               k_sent_close_time c1 = None /\ k_frames c1 = open1 /\ k_ztape c1 = tape1 /\ data_head open1 /\
               msg_events (k_tr c1) = rev (map ev_of ms) ++ msg_events (k_tr c) /\ k_sock c1 = k_sock c /\
               wfacts cf c c1 ms.
  Proof.
    intros Hcl Hcg Hd Hsc Hfr Hzt Hdh Href. unfold ref1z in Href.
    destruct ((f_op f <? 16) && (blen (f_payload f) <? 9223372036854775808)) eqn:Eb; [|discriminate]. cbn [negb] in Href.
    apply andb_prop in Eb as [Eop Elen].
    destruct (validate_err true (hdr_z f) (blen (f_payload f))) eqn:Ev; [discriminate|].
    destruct (is_control (f_op f)) eqn:Ectl.
    - (* Ping / Pong *)
      destruct (f_rsv1 f) eqn:Er; [discriminate|].
      assert (Hctl125 : blen (f_payload f) <= 125).
      { unfold validate_err in Ev. cbn [hdr_z h_op h_fin h_r1 h_r2 h_r3] in Ev. rewrite Ectl in Ev.
        apply orb_false_iff in Ev as [_ Ev]. cbn [andb] in Ev. apply N.ltb_ge in Ev. exact Ev. }
      assert (Control : forall e m, build_message c [f] = (c, inl m) ->
                on_message cf app c m = (let '(c1, st) := feed_yield cf app c e (fun c1 => (c1, SOk)) in (c1, st, FContinue)) ->
                (match e with EvPing p => blen p <= 125 | EvClosing _ _ | EvClosed _ _ | EvReady _ _ => False | _ => True end) ->
                is_msg_ev e = true -> ms = [] \/ True ->
                exists c1, on_item cf app c (IFrame f) = (c1, SOk, FContinue) /\
                 k_ps c1 = k_ps c /\ k_closed c1 = false /\ k_closing c1 = false /\ k_deflate c1 = Some d /\
                 k_sent_close_time c1 = None /\ k_frames c1 = open /\ k_ztape c1 = tape /\ data_head open /\
                 msg_events (k_tr c1) = [e] ++ msg_events (k_tr c) /\ k_sock c1 = k_sock c /\
                 (c_ping_rate cf = 0%Z -> c_auto_pong cf = true -> wok c -> wok c1 /\ writes (k_tr c1) = ev_reply e ++ writes (k_tr c))).
      { intros e m Hb Hm He Hme _. unfold on_item, stream_frame. rewrite Ectl, Hb, Hm.
        destruct (yield_z d c e Hcl Hcg Hd Hsc He Hme) as (c1 & E1 & P1 & P2 & P3 & P4 & P5 & P6 & P7 & P8 & M1 & W1).
        rewrite E1. exists c1. split; [reflexivity|].
        do 8 (split; [first [congruence | assumption]|]). split; [exact M1|]. split; [exact P8|exact W1]. }
      destruct (f_op f =? OP_PING) eqn:Eping.
      { apply N.eqb_eq in Eping. inversion Href; subst ms open1 tape1. clear Href.
        destruct (Control (EvPing (f_payload f)) (MPing (f_payload f))) as (c1 & H); auto.
        - rewrite (build_plain_hd c f [] Er). cbv zeta. rewrite payload_of_one', Eping. reflexivity.
        - exists c1. exact H. }
      destruct (f_op f =? OP_PONG) eqn:Epong; [|discriminate].
      { apply N.eqb_eq in Epong. inversion Href; subst ms open1 tape1. clear Href.
        destruct (Control (EvPong (f_payload f)) (MPong (f_payload f))) as (c1 & H); auto.
        - rewrite (build_plain_hd c f [] Er). cbv zeta. rewrite payload_of_one', Epong. reflexivity.
        - exists c1. exact H. }
    - (* data frames *)
      unfold on_item, stream_frame. rewrite Ectl, Hfr.
      destruct open as [|o0 orest].
      + (* first frame of a data message *)
        destruct (f_op f =? OP_CONT) eqn:Econt; [discriminate|].
        assert (Hkind : (f_op f =? OP_TEXT) || (f_op f =? OP_BINARY) = true).
        { unfold validate_err in Ev. cbn [hdr_z h_op] in Ev. apply orb_false_iff in Ev as [Ev _]. apply orb_false_iff in Ev as [Ev _].
          apply orb_false_iff in Ev as [_ Ev]. unfold is_reserved in Ev. unfold is_control in Ectl.
          apply N.ltb_lt in Eop. apply N.eqb_neq in Econt. apply N.leb_gt in Ectl.
          apply orb_false_iff in Ev as [Ev1 _]. apply andb_false_iff in Ev1.
          assert (f_op f = 1 \/ f_op f = 2) as [->| ->]; [|reflexivity|reflexivity].
          destruct Ev1 as [Ev1|Ev1]; [apply N.leb_gt in Ev1|apply N.leb_gt in Ev1]; unfold OP_CONT in *; lia. }
        destruct (f_fin f) eqn:Efin.
        * destruct (complete_z d c c [f] f [] tape ms open1 tape1 eq_refl Hkind Hcl Hcg Hd Hsc Hzt eq_refl eq_refl eq_refl eq_refl Href)
            as (c1 & E1 & P1 & P2 & P3 & P4 & P5 & P6 & P7 & P8 & -> & M1 & W1).
          exists c1. split; [exact E1|].
          do 8 (split; [first [congruence | exact I]|]). split; [exact M1|]. split; [exact P8|exact W1].
        * unfold zcomplete in Href. inversion Href; subst ms open1 tape1.
          eexists. split; [reflexivity|]. cbn. repeat split; auto; try (unfold wok, keys_ok in *; cbn; tauto).
      + (* a continuation frame *)
        destruct (f_op f =? OP_CONT) eqn:Econt; cbn [negb] in *; [|discriminate].
        destruct (f_rsv1 f) eqn:Er; [discriminate|].
        destruct (f_fin f) eqn:Efin.
        * set (c0 := c <| k_frames := [] |>).
          destruct (complete_z d c0 c ((o0 :: orest) ++ [f]) o0 (orest ++ [f]) tape ms open1 tape1 eq_refl Hdh Hcl Hcg Hd Hsc Hzt eq_refl eq_refl eq_refl eq_refl Href)
            as (c1 & E1 & P1 & P2 & P3 & P4 & P5 & P6 & P7 & P8 & -> & M1 & W1).
          exists c1. split; [exact E1|].
          do 8 (split; [first [congruence | exact I | (rewrite P2; reflexivity) | (rewrite P1; reflexivity)]|]).
          split; [exact M1|]. split; [exact P8|exact W1].
        * unfold zcomplete in Href. inversion Href; subst ms open1 tape1.
          eexists. split; [reflexivity|]. cbn. repeat split; auto; try (unfold wok, keys_ok in *; cbn; tauto).
  Qed.

  Lemma at_boundary_z_ok s t : at_boundary_z s t -> fp_ok s.
  Proof. intros ->. unfold fp_ok, st_ok. cbn. lia. Qed.

  Lemma ref1z_valid open tape f r : ref1z open tape f = Some r -> validate_err true (hdr_z f) (blen (f_payload f)) = false.
  Proof.
    unfold ref1z. destruct (negb _); [discriminate|].
    destruct (validate_err true (hdr_z f) (blen (f_payload f))); [discriminate|reflexivity].
  Qed.

  (* the parser's "a text message is open" flag follows the reference reading *)
  Lemma ref1z_text open tape f ms open1 tape1 : data_head open ->
    ref1z open tape f = Some (ms, open1, tape1) -> is_text_after f (is_text_msg open) = is_text_msg open1.
  Proof.
    intros Hdh. unfold ref1z. destruct (negb _); [discriminate|].
    destruct (validate_err true (hdr_z f) (blen (f_payload f))) eqn:Ev; [discriminate|].
    assert (Hfinctl : is_control (f_op f) = true -> f_fin f = true).
    { intros Hc. unfold validate_err in Ev. cbn [hdr_z h_op h_fin] in Ev. rewrite Hc in Ev.
      apply orb_false_iff in Ev as [Ev _]. apply orb_false_iff in Ev as [_ Ev]. rewrite andb_true_r in Ev.
      destruct (f_fin f); [reflexivity|discriminate]. }
    unfold is_text_after. destruct (is_control (f_op f)) eqn:Ectl.
    - destruct (f_rsv1 f); [discriminate|]. rewrite (Hfinctl eq_refl). cbn [negb andb].
      assert (Hnt : (f_op f =? OP_TEXT) = false).
      { unfold is_control in Ectl. apply N.leb_le in Ectl. apply N.eqb_neq. unfold OP_TEXT. lia. }
      rewrite Hnt. destruct (f_op f =? OP_PING); [intros H; inversion H; reflexivity|].
      destruct (f_op f =? OP_PONG); [intros H; inversion H; reflexivity|discriminate].
    - cbn [negb]. rewrite andb_true_r. destruct open as [|o0 orest].
      + destruct (f_op f =? OP_CONT); [discriminate|]. unfold zcomplete. cbn [is_text_msg].
        destruct (f_fin f).
        * destruct (zpayload [f] tape) as [[p t']|]; [|discriminate].
          destruct (f_op f =? OP_TEXT); [destruct (utf8_validb p); [|discriminate]|]; intros H; inversion H; reflexivity.
        * intros H; inversion H. cbn [is_text_msg]. destruct (f_op f =? OP_TEXT); reflexivity.
      + destruct (f_op f =? OP_CONT) eqn:Econt; cbn [negb]; [|discriminate].
        destruct (f_rsv1 f); [discriminate|]. unfold zcomplete.
        assert (Hnt : (f_op f =? OP_TEXT) = false) by (apply N.eqb_eq in Econt; rewrite Econt; reflexivity).
        rewrite Hnt. destruct (f_fin f).
        * destruct (zpayload ((o0 :: orest) ++ [f]) tape) as [[p t']|]; [|discriminate].
          destruct (is_text_msg ((o0 :: orest) ++ [f])); [destruct (utf8_validb p); [|discriminate]|]; intros H; inversion H; reflexivity.
        * intros H; inversion H. reflexivity.
  Qed.

  Theorem deliver_frames_z d fs : forall lfs c open tape ms open' tape',
    idle_z d c open tape -> data_head open -> Forall zframe fs -> forms_ok fs lfs ->
    ref_messages_z open tape fs = Some (ms, open', tape') ->
    exists c', feedf cf app c (encode_all fs lfs) = (c', SOk) /\ idle_z d c' open' tape' /\ data_head open' /\
               msg_events (k_tr c') = rev (map ev_of ms) ++ msg_events (k_tr c) /\ k_sock c' = k_sock c /\
               wfacts cf c c' ms.
  Proof.
    induction fs as [|f rest IH]; intros lfs c open tape ms open' tape' Hidle Hdh Hpl Hforms Href.
    - destruct lfs; [|contradiction]. cbn in Href. inversion Href; subst ms open' tape'. cbn [encode_all].
      pose proof Hidle as (Hcl & _ & _ & _ & _ & _ & Hab).
      rewrite feedf_unfold by (eapply at_boundary_z_ok; exact Hab). unfold feed_body. rewrite Hcl.
      rewrite fp_pull_unfold by (eapply at_boundary_z_ok; exact Hab). unfold pull_body.
      rewrite set_ps_same. exists c. split; [reflexivity|]. split; [exact Hidle|]. split; [exact Hdh|].
      split; [reflexivity|]. split; [reflexivity|apply wfacts_refl].
    - destruct lfs as [|lf lfs]; [contradiction|]. destruct Hforms as [Hform Hforms].
      inversion Hpl as [|? ? Hpf Hprest]; subst.
      cbn [ref_messages_z] in Href.
      destruct (ref1z open tape f) as [[[ms1 open1] tape1]|] eqn:E1; [|discriminate].
      destruct (ref_messages_z open1 tape1 rest) as [[[ms2 open2] tape2]|] eqn:E2; [|discriminate].
      inversion Href; subst ms open' tape'. clear Href.
      destruct Hidle as (Hcl & Hcg & Hdf & Hsc & Hfr & Hzt & Hab).
      destruct (pull_one_frame_z (k_ps c) (is_text_msg open) f lf (encode_all rest lfs) Hab Hpf Hform (ref1z_valid _ _ _ _ E1))
        as (s' & Hpull & Hab').
      cbn [encode_all].
      rewrite feedf_unfold by (eapply at_boundary_z_ok; exact Hab). unfold feed_body. rewrite Hcl, Hpull.
      destruct (frame_step_z d (c <| k_ps := s' |>) open tape f ms1 open1 tape1)
        as (c1 & Eitem & S1 & S2 & S3 & S4 & S5 & S6 & S7 & S8 & S9 & S10 & S11); auto.
      rewrite Eitem.
      destruct (IH lfs c1 open1 tape1 ms2 open2 tape2) as (c' & Efeed & Hidle' & Hdh' & Hmsgs & Hsock & Hw'); auto.
      { unfold idle_z. repeat split; auto. rewrite S1. cbn. rewrite <- (ref1z_text open tape f ms1 open1 tape1 Hdh E1). exact Hab'. }
      assert (S11' : wfacts cf c c1 ms1) by exact S11.
      exists c'. split; [exact Efeed|]. split; [exact Hidle'|]. split; [exact Hdh'|].
      split; [|split; [rewrite Hsock, S10; reflexivity|eapply wfacts_trans; [exact S11'|exact Hw']]].
      rewrite Hmsgs, S9. cbn. rewrite map_app, rev_app_distr, app_assoc. reflexivity.
  Qed.

  Lemma idle_z_ok d c open tape : idle_z d c open tape -> fp_ok (k_ps c).
  Proof. intros (_ & _ & _ & _ & _ & _ & Hab). eapply at_boundary_z_ok; exact Hab. Qed.

  (* ... and however the bytes are cut into reads *)
  Corollary deliver_frames_z_chunked d fs lfs ds c open tape ms open' tape' :
    idle_z d c open tape -> data_head open -> Forall zframe fs -> forms_ok fs lfs ->
    ref_messages_z open tape fs = Some (ms, open', tape') -> concat ds = encode_all fs lfs ->
    exists c', feed_chunks cf app c ds = (c', SOk) /\ idle_z d c' open' tape' /\ data_head open' /\
               msg_events (k_tr c') = rev (map ev_of ms) ++ msg_events (k_tr c) /\ k_sock c' = k_sock c /\
               wfacts cf c c' ms.
  Proof.
    intros Hi Hd Hp Hf Href Hc.
    rewrite (feed_chunks_concat cf app ds c (idle_z_ok d c open tape Hi)), Hc.
    exact (deliver_frames_z d fs lfs c open tape ms open' tape' Hi Hd Hp Hf Href).
  Qed.
End DeliveryZ.

(* what C06 and C14 take from it *)
Corollary inflater_results_in_order cf app : benign app -> zpos (c_ping_timeout cf) = None ->
  forall d fs lfs ds c open tape ms open' tape',
  idle_z d c open tape -> data_head open -> Forall zframe fs -> forms_ok fs lfs ->
  ref_messages_z open tape fs = Some (ms, open', tape') -> concat ds = encode_all fs lfs ->
  exists c', feed_chunks cf app c ds = (c', SOk) /\ k_ztape c' = tape' /\ k_deflate c' = Some d /\
             msg_events (k_tr c') = rev (map ev_of ms) ++ msg_events (k_tr c).
Proof.
  intros Hb Hz d fs lfs ds c open tape ms open' tape' Hi Hd Hp Hf Href Hc.
  destruct (deliver_frames_z_chunked cf app Hb Hz d fs lfs ds c open tape ms open' tape' Hi Hd Hp Hf Href Hc)
    as (c' & E & (_ & _ & D & _ & _ & Z & _) & _ & M & _).
  exists c'. auto.
Qed.

Corollary pongs_in_order_z cf app : benign app -> zpos (c_ping_timeout cf) = None ->
  forall d fs lfs ds c open tape ms open' tape',
  c_auto_pong cf = true -> c_ping_rate cf = 0%Z ->
  idle_z d c open tape -> data_head open -> Forall zframe fs -> forms_ok fs lfs ->
  ref_messages_z open tape fs = Some (ms, open', tape') -> concat ds = encode_all fs lfs -> wok c ->
  exists c', feed_chunks cf app c ds = (c', SOk) /\ wok c' /\ writes (k_tr c') = rev (pong_replies ms) ++ writes (k_tr c).
Proof.
  intros Hb Hz d fs lfs ds c open tape ms open' tape' Ha Hr Hi Hd Hp Hf Href Hc Hw.
  destruct (deliver_frames_z_chunked cf app Hb Hz d fs lfs ds c open tape ms open' tape' Hi Hd Hp Hf Href Hc)
    as (c' & E & _ & _ & _ & _ & W).
  destruct (W Hr Ha Hw) as [W1 W2]. exists c'. auto.
Qed.

(* ====================================================================================================== *)
(* how such a connection comes about: the accepted upgrade reply that negotiates permessage-deflate takes a fresh connection
   to the state between two frames with compression enabled -- the inflate tape untouched *)
Section HandshakeZ.
  Variable cf : cfg.
  Variable app : strategy.
  Hypothesis app_benign : benign app.
  Hypothesis no_ping_timeout : zpos (c_ping_timeout cf) = None.

  Lemma zt_deliver c e : k_ztape (fst (deliver app c e)) = k_ztape c.
  Proof. change (same_zt c (fst (deliver app c e))). inst_zt fr_deliver. Qed.
  Lemma zt_regular c : k_ztape (fst (regular cf app c)) = k_ztape c.
  Proof. change (same_zt c (fst (regular cf app c))). inst_zt fr_regular. Qed.

  Lemma handshake_idle_z c reply proto d :
    k_ps c = fp_init -> k_closed c = false -> k_closing c = false -> k_sent_close_time c = None ->
    k_frames c = [] -> reply_block reply ->
    on_response (c_accept cf) (parse_response reply) = HReady proto (Some d) ->
    exists c', feedf cf app c reply = (c', SOk) /\ idle_z d c' [] (k_ztape c) /\ msg_events (k_tr c') = msg_events (k_tr c) /\
               k_sock c' = k_sock c.
  Proof.
    intros Hps Hcl Hcg Hsc Hfr Hrb Hresp.
    destruct (pull_reply reply Hrb) as (s' & Hpull & Hab).
    rewrite feedf_unfold by (rewrite Hps; exact fp_init_ok). unfold feed_body. rewrite Hcl, Hps, Hpull.
    unfold on_item. rewrite Hresp. unfold feed_yield, in_feed_yield. cbn [on_event].
    match goal with |- context [deliver app ?x ?e] => set (cr := x); set (ev0 := e) end.
    destruct (deliver_benign app app_benign cr ev0) as (cd & Ed & (D1&D2&D3&D4&D5&D6&D7&D8) & Md).
    pose proof (zt_deliver cr ev0) as Zd. rewrite Ed in *. cbn [fst] in Zd.
    assert (Hscd : k_sent_close_time cd = None) by (rewrite D6; exact Hsc).
    destruct (regular_quiet cf app app_benign no_ping_timeout cd Hscd) as (R1 & (S1&S2&S3&S4&S5&S6&S7&S8) & R3).
    pose proof (zt_regular cd) as Zr.
    destruct (regular cf app cd) as [c2 st2]. cbn [fst snd] in *. subst st2.
    assert (F6 : k_ps c2 = fp_enable_compression s') by (rewrite S1, D1; reflexivity).
    assert (Hab2 : at_boundary_z (k_ps c2) false) by (rewrite F6, Hab; reflexivity).
    assert (Hokc2 : fp_ok (k_ps c2)) by (rewrite Hab2; unfold fp_ok, st_ok; cbn; lia).
    assert (F1 : k_closed c2 = false) by (rewrite S4, D4; exact Hcl).
    exists c2. split.
    { rewrite feedf_unfold by exact Hokc2. unfold feed_body. rewrite F1.
      change (fp_pull (k_ps c2) []) with (NeedMore (item:=pitem) (err:=perr) (k_ps c2)). cbv beta iota.
      rewrite set_ps_same. reflexivity. }
    split.
    { unfold idle_z. split; [exact F1|]. split; [rewrite S3, D3; exact Hcg|]. split; [rewrite S5, D5; reflexivity|].
      split; [rewrite S6; exact Hscd|]. split; [rewrite S2, D2; exact Hfr|]. split; [rewrite Zr, Zd; reflexivity|exact Hab2]. }
    split; [rewrite R3, Md; reflexivity|rewrite S8, D8; reflexivity].
  Qed.
End HandshakeZ.

(* ====================================================================================================== *)
(* the two reference readings agree on uncompressed traffic: whatever the plain reading (ref_messages, which also demands
   that every text fragment is a viable UTF-8 prefix) accepts, the reading for compressed connections accepts with the same
   messages, and it leaves the inflate tape alone *)
Lemma hdr_z_plain f : f_rsv1 f = false -> hdr_z f = hdr_of f.
Proof. intros H. unfold hdr_z, hdr_of. rewrite H. reflexivity. Qed.

Lemma ref1_ref1z open tape f ms open1 : plain f -> Forall (fun f => f_rsv1 f = false) open ->
  ref1 open f = Some (ms, open1) -> ref1z open tape f = Some (ms, open1, tape).
Proof.
  intros (P1 & _) Hopen H. unfold ref1 in H. unfold ref1z. rewrite (hdr_z_plain f P1), P1.
  destruct (negb ((f_op f <? 16) && (blen (f_payload f) <? 9223372036854775808))); [discriminate|].
  assert (Ev : validate_err true (hdr_of f) (blen (f_payload f)) = validate_err false (hdr_of f) (blen (f_payload f))) by reflexivity.
  rewrite Ev. destruct (validate_err false (hdr_of f) (blen (f_payload f))); [discriminate|].
  destruct (f_op f =? OP_PING) eqn:Eping.
  { apply N.eqb_eq in Eping. rewrite Eping in *. change (is_control OP_PING) with true. cbv iota. inversion H; reflexivity. }
  destruct (f_op f =? OP_PONG) eqn:Epong.
  { apply N.eqb_eq in Epong. rewrite Epong in *. change (is_control OP_PONG) with true. change (OP_PONG =? OP_PING) with false.
    cbv iota. inversion H; reflexivity. }
  destruct (is_control (f_op f)); [discriminate|].
  assert (Z : forall fs, fs <> [] -> hd f fs = hd f fs -> f_rsv1 (hd f fs) = false ->
            (if is_text_msg fs then
               match uvalidate UAcc (payload_of fs) with
               | None => None
               | Some _ => if f_fin f then (if utf8_validb (payload_of fs) then Some ([SText (payload_of fs)], []) else None) else Some ([], fs)
               end
             else if f_fin f then Some ([SBinary (payload_of fs)], []) else Some ([], fs)) = Some (ms, open1) ->
            zcomplete fs tape (f_fin f) = Some (ms, open1, tape)).
  { intros fs Hne _ Hr Hx. unfold zcomplete, zpayload. destruct fs as [|f0 fr]; [congruence|]. cbn [hd] in Hr. rewrite Hr.
    destruct (is_text_msg (f0 :: fr)).
    - destruct (uvalidate UAcc (payload_of (f0 :: fr))); [|discriminate].
      destruct (f_fin f); [|inversion Hx; reflexivity].
      destruct (utf8_validb (payload_of (f0 :: fr))); [inversion Hx; reflexivity|discriminate].
    - destruct (f_fin f); inversion Hx; reflexivity. }
  destruct open as [|o0 orest].
  - destruct (f_op f =? OP_CONT); [discriminate|]. apply Z; [discriminate|reflexivity|exact P1|exact H].
  - destruct (negb (f_op f =? OP_CONT)); [discriminate|]. apply Z; [discriminate|reflexivity| |exact H].
    inversion Hopen; assumption.
Qed.

(* the open fragments of the plain reading never carry RSV1 *)
Lemma ref1_open_plain open f ms open1 : plain f -> Forall (fun f => f_rsv1 f = false) open ->
  ref1 open f = Some (ms, open1) -> Forall (fun f => f_rsv1 f = false) open1.
Proof.
  intros (P1 & _) Hopen H. unfold ref1 in H.
  destruct (negb _); [discriminate|]. destruct (validate_err false (hdr_of f) (blen (f_payload f))); [discriminate|].
  destruct (f_op f =? OP_PING); [inversion H; subst; exact Hopen|].
  destruct (f_op f =? OP_PONG); [inversion H; subst; exact Hopen|].
  destruct (is_control (f_op f)); [discriminate|].
  assert (Z : forall fs, Forall (fun f => f_rsv1 f = false) fs ->
            (if is_text_msg fs then
               match uvalidate UAcc (payload_of fs) with
               | None => None
               | Some _ => if f_fin f then (if utf8_validb (payload_of fs) then Some ([SText (payload_of fs)], []) else None) else Some ([], fs)
               end
             else if f_fin f then Some ([SBinary (payload_of fs)], []) else Some ([], fs)) = Some (ms, open1) ->
            Forall (fun f => f_rsv1 f = false) open1).
  { intros fs Hfs Hx. destruct (is_text_msg fs).
    - destruct (uvalidate UAcc (payload_of fs)); [|discriminate]. destruct (f_fin f).
      + destruct (utf8_validb (payload_of fs)); inversion Hx; constructor.
      + inversion Hx; subst; exact Hfs.
    - destruct (f_fin f); inversion Hx; subst; [constructor|exact Hfs]. }
  destruct open as [|o0 orest].
  - destruct (f_op f =? OP_CONT); [discriminate|]. apply (Z [f]); [constructor; [exact P1|constructor]|exact H].
  - destruct (negb (f_op f =? OP_CONT)); [discriminate|]. apply (Z ((o0 :: orest) ++ [f])); [|exact H].
    apply Forall_app. split; [exact Hopen|constructor; [exact P1|constructor]].
Qed.

Theorem ref_messages_z_extends_ref_messages fs : forall open tape ms open',
  Forall plain fs -> Forall (fun f => f_rsv1 f = false) open ->
  ref_messages open fs = Some (ms, open') -> ref_messages_z open tape fs = Some (ms, open', tape).
Proof.
  induction fs as [|f rest IH]; intros open tape ms open' Hpl Hopen H.
  - cbn in *. inversion H; reflexivity.
  - inversion Hpl as [|? ? Hpf Hprest]; subst. cbn [ref_messages] in H. cbn [ref_messages_z].
    destruct (ref1 open f) as [[ms1 open1]|] eqn:E1; [|discriminate].
    destruct (ref_messages open1 rest) as [[ms2 open2]|] eqn:E2; [|discriminate].
    inversion H; subst ms open'. clear H.
    rewrite (ref1_ref1z open tape f ms1 open1 Hpf Hopen E1).
    rewrite (IH open1 tape ms2 open2 Hprest (ref1_open_plain open f ms1 open1 Hpf Hopen E1) E2). reflexivity.
Qed.

(* a plain frame is a frame a compressed connection accepts *)
Lemma plain_zframe f : plain f -> zframe f.
Proof. intros (_ & B & C & D & E & F). repeat split; assumption. Qed.
