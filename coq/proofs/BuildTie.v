(* (T1) The bytes the live code puts on the wire for a frame -- Frame(opcode, payload, rsv1).to_bytes(), executed on the three
   length forms and their boundaries (coq/gen/GenBuild.v) -- are the model's Frame.build, byte for byte.  With
   C03_build_roundtrip (every payload length below 2^63) this carries the decoder theorem to the running code at the
   places where the encodings change. *)
From Coq Require Import List NArith Bool.
From Coq.Strings Require Import Byte.
From Model Require Import Bytes Frame.
From Gen Require Import GenBuild.
Import ListNotations.
Open Scope N_scope.

Fixpoint upto (n : nat) : list N := match n with O => [] | S k => upto k ++ [N.of_nat k] end.
Definition pattern (len : N) : bytes :=
  if len <=? 200 then map (fun i => n2b ((i * 7 + 3) mod 256)) (upto (N.to_nat len)) else repeat x00 (N.to_nat len).

Definition list_N_eqb (a b : list N) : bool := Nat.eqb (length a) (length b) && forallb (fun p => fst p =? snd p) (combine a b).

Definition row_ok (row : N * N * N * N * list N) : bool :=
  let '(op, rsv1, len, total, shown) := row in
  let out := map b2n (build op (negb (rsv1 =? 0)) (map n2b impl_build_key) (pattern len)) in
  (N.of_nat (length out) =? total) && list_N_eqb (if len <=? 200 then out else firstn 14 out) shown.

Theorem impl_build_is_model : forallb row_ok impl_build_rows = true.
Proof. vm_compute. reflexivity. Qed.

(* the table covers every length form on both sides of its boundaries *)
Theorem impl_build_covers_boundaries :
  forallb (fun len => existsb (fun row => let '(op, rsv1, l, _, _) := row in (op =? 2) && (rsv1 =? 0) && (l =? len)) impl_build_rows)
          [0; 125; 126; 127; 65535; 65536; 65537] = true.
Proof. vm_compute. reflexivity. Qed.
