(* C08 for a whole stream, server-initiated direction: after a conforming prefix the server's Close frame yields Closing,
   and the client echoes exactly one Close frame with the same code and reason and is then closing. *)
From Coq Require Import List NArith ZArith Arith Lia Bool.
From Coq.Strings Require Import Byte.
From RecordUpdate Require Import RecordSet.
From Model Require Import Bytes Utf8 Frame Parser FrameParser Response Conn.
From Proofs Require Import BytesFacts ParserFacts FrameParserFacts FrameFacts ConnFacts ApiFacts TraceFacts CloseFacts ViolationFacts ShapeFacts DeliveryFacts StreamViolation.
Import ListNotations RecordSetNotations.
Open Scope N_scope.

Lemma be_encode2_decode a b : be_encode 2 (be_decode [a; b]) = [a; b].
Proof.
  unfold be_decode. cbn [be_decode_acc be_encode List.app].
  pose proof (b2n_lt a) as Ha. pose proof (b2n_lt b) as Hb.
  assert (E1 : (0 * 256 + b2n a) * 256 + b2n b = b2n b + b2n a * 256) by lia. rewrite E1.
  rewrite N.div_add by lia. rewrite (N.div_small (b2n b)) by exact Hb. rewrite N.add_0_l.
  f_equal; [apply n2b_b2n|]. f_equal. apply b2n_inj. rewrite b2n_n2b_mod, N.mod_add by lia. apply N.mod_small. exact Hb.
Qed.

(* the payload of a Close frame the client accepts: empty, or a valid status code and a UTF-8 reason *)
Definition good_close (p : bytes) (code : option N) (reason : bytes) : Prop :=
  (p = [] /\ code = None /\ reason = []) \/
  (exists a b, p = a :: b :: reason /\ utf8_validb reason = true /\ code = Some (be_decode [a; b]) /\
               invalid_close_code (be_decode [a; b]) = false).

Lemma good_close_payload p code reason : good_close p code reason -> close_payload code reason = p.
Proof.
  intros [(-> & -> & ->)|(a & b & -> & _ & -> & _)]; [reflexivity|]. unfold close_payload. rewrite be_encode2_decode. reflexivity.
Qed.

Definition fields_eq (c c' : conn) : Prop :=
  k_ps c' = k_ps c /\ k_closed c' = k_closed c /\ k_frames c' = k_frames c /\ k_deflate c' = k_deflate c /\ k_sock c' = k_sock c.
Lemma write_fields c d cl : fields_eq c (fst (write c d cl)).
Proof.
  unfold write, pop_wfault, fields_eq. destruct (negb (k_sock c)); [cbn; tauto|]. destruct (k_closed c) eqn:E; [cbn; tauto|].
  destruct (k_closing c); [cbn; tauto|].
  destruct cl; cbn [k_wfaults set]; destruct (k_wfaults c) as [|w ws]; try destruct w; cbn; rewrite ?E; tauto.
Qed.
Lemma send_frame_fields c op r p : fields_eq c (fst (send_frame c op r p)).
Proof.
  unfold send_frame, pop_key. destruct (k_keys c) as [|k ks]; [apply write_fields|].
  pose proof (write_fields (c <| k_keys := ks |>) (build op r k p) (op =? OP_CLOSE)) as H. unfold fields_eq in *. cbn in H. exact H.
Qed.
Lemma ws_close_fields c code reason : k_closed c = false ->
  let c' := fst (ws_close c code reason) in
  k_ps c' = k_ps c /\ k_closed c' = false /\ k_frames c' = k_frames c /\ k_deflate c' = k_deflate c /\ k_sock c' = k_sock c.
Proof.
  intros Hcl. cbv zeta. unfold ws_close. rewrite Hcl.
  destruct (k_closing c); [cbn; auto|]. destruct (125 <? _); [cbn; auto|].
  pose proof (send_frame_fields c OP_CLOSE false (close_payload code reason)) as (A&B&C&D&E).
  destruct (send_frame c OP_CLOSE false (close_payload code reason)) as [c1 r]. cbn [fst] in *. cbn. rewrite <- Hcl. tauto.
Qed.

Section CloseStream.
  Variable cf : cfg.
  Variable app : strategy.
  Hypothesis app_benign : benign app.
  Hypothesis no_ping_timeout : zpos (c_ping_timeout cf) = None.

  Lemma in_feed_yield_closing c code reason : k_sent_close_time c = None ->
    snd (in_feed_yield cf app c (EvClosing code reason)) = SOk /\ same_core c (fst (in_feed_yield cf app c (EvClosing code reason))) /\
    msg_events (k_tr (fst (in_feed_yield cf app c (EvClosing code reason)))) = EvClosing code reason :: msg_events (k_tr c) /\
    perrors (k_tr (fst (in_feed_yield cf app c (EvClosing code reason)))) = perrors (k_tr c).
  Proof.
    intros Hs. unfold in_feed_yield. cbn [on_event].
    destruct (deliver_benign app app_benign c (EvClosing code reason)) as (c1 & E1 & C1 & M1). rewrite E1.
    assert (Hs1 : k_sent_close_time c1 = None) by (destruct C1 as (_&_&_&_&_&S1&_); congruence).
    destruct (regular_quiet cf app app_benign no_ping_timeout c1 Hs1) as (R1 & R2 & R3).
    pose proof (np_regular cf app c1) as (l2 & El2 & Fl2).
    assert (P1 : perrors (k_tr c1) = perrors (k_tr c)).
    { pose proof (np_feed_yield cf app c (EvClosing code reason) (fun c => (c, SOk)) I ltac:(intros; apply ext_refl)) as (l & El & Fl).
      unfold feed_yield, in_feed_yield in El. cbn [on_event] in El. rewrite E1 in El.
      destruct (regular cf app c1) as [c2 st2] eqn:Er. cbn [fst snd] in *. subst st2. cbn [fst] in El.
      rewrite El2 in El. rewrite <- (perrors_nope l2 Fl2 (k_tr c1)). rewrite El. apply perrors_nope. exact Fl. }
    destruct (regular cf app c1) as [c2 st2]. cbn [fst snd] in *. subst st2.
    split; [reflexivity|]. split; [eapply same_core_trans; eauto|]. split; [rewrite R3, M1; reflexivity|].
    rewrite El2, perrors_nope by exact Fl2. exact P1.
  Qed.

  Theorem server_close_after_prefix fs lfs c open ms open' f lf code reason :
    idle c open -> data_head open -> Forall plain fs -> forms_ok fs lfs ->
    ref_messages open fs = Some (ms, open') ->
    plain f -> f_op f = OP_CLOSE -> f_fin f = true -> blen (f_payload f) <= 125 -> form_ok lf (blen (f_payload f)) = true ->
    good_close (f_payload f) code reason ->
    exists c', feedf cf app c (encode_all fs lfs ++ enc_frame f lf) = (c', SOk) /\
      msg_events (k_tr c') = EvClosing code reason :: rev (map ev_of ms) ++ msg_events (k_tr c) /\
      perrors (k_tr c') = perrors (k_tr c) /\
      k_closing c' = true /\ k_closed c' = false /\
      (c_ping_rate cf = 0%Z -> c_auto_pong cf = true -> wok c ->
       writes (k_tr c') = (OP_CLOSE, f_payload f) :: rev (pong_replies ms) ++ writes (k_tr c)).
  Proof.
    intros Hidle Hdh Hpl Hforms Href Hpf Hop Hfin Hlen Hform Hgood.
    destruct (deliver_frames cf app app_benign no_ping_timeout fs lfs c open ms open' Hidle Hdh Hpl Hforms Href)
      as (c1 & E1 & Hidle1 & Hdh1 & M1 & S1 & W1).
    pose proof (feed_ok_no_protocol_error cf app c _ c1 E1) as P1.
    rewrite (feed_split cf app (length (encode_all fs lfs)) (encode_all fs lfs) (enc_frame f lf) c (le_n _) (idle_ok c open Hidle)).
    unfold then_feed. rewrite E1. cbn [fst snd].
    destruct Hidle1 as (Hcl & Hcg & Hdf & Hsc & Hfr & Hrs & u & Hab & Hu).
    assert (Hv : validate_err false (hdr_of f) (blen (f_payload f)) = false).
    { unfold validate_err, hdr_of. cbn [h_r1 h_r2 h_r3 h_op h_fin]. rewrite Hop, Hfin.
      replace (125 <? blen (f_payload f)) with false by (symmetry; apply N.ltb_ge; exact Hlen). reflexivity. }
    assert (Hutf : textual f (is_text_msg open') = true -> uvalidate u (f_payload f) = Some u).
    { unfold textual. rewrite Hop. cbn. discriminate. }
    destruct (pull_one_frame (k_ps c1) (is_text_msg open') u f lf [] u Hab Hpf Hform Hv Hutf) as (s' & Hpull & Hab').
    rewrite app_nil_r in Hpull.
    rewrite feedf_unfold by (rewrite Hab; unfold fp_ok, st_ok; cbn; lia). unfold feed_body. rewrite Hcl, Hpull.
    set (cs := c1 <| k_ps := s' |>).
    assert (Hvalid : (match code with Some n => invalid_close_code n | None => false end) = false).
    { destruct Hgood as [(_ & -> & _)|(a & b & _ & _ & -> & Hc)]; [reflexivity|exact Hc]. }
    assert (Hitem : on_item cf app cs (IFrame f) = on_message cf app cs (MClose code reason)).
    { unfold on_item, stream_frame. rewrite Hop. change (is_control OP_CLOSE) with true. cbv iota.
      rewrite (build_plain cs [f] f [] eq_refl) by (constructor; [destruct Hpf as (A & _); exact A|constructor]).
      cbv zeta. rewrite payload_of_one, Hop. change (OP_CLOSE =? OP_BINARY) with false. change (OP_CLOSE =? OP_TEXT) with false.
      change (OP_CLOSE =? OP_CLOSE) with true. cbv iota.
      destruct Hgood as [(-> & -> & ->)|(a & b & -> & Hu8 & -> & Hc)]; [reflexivity|rewrite Hu8; reflexivity]. }
    rewrite Hitem, (server_close_is_echoed cf app cs code reason Hcl Hcg Hvalid).
    unfold feed_yield.
    destruct (in_feed_yield_closing cs code reason Hsc) as (Y1 & (Z1&Z2&Z3&Z4&Z5&Z6&Z7&Z8) & Y3 & Y4).
    pose proof (fun r0 => regular_writes cf app app_benign no_ping_timeout r0) as RW.
    assert (WY : c_ping_rate cf = 0%Z -> writes (k_tr (fst (in_feed_yield cf app cs (EvClosing code reason)))) = writes (k_tr cs)
                 /\ (wok cs -> wok (fst (in_feed_yield cf app cs (EvClosing code reason))))).
    { intros R0. unfold in_feed_yield. cbn [on_event].
      destruct (deliver_benign app app_benign cs (EvClosing code reason)) as (cd & Ed & (_&_&_&_&_&D6&_) & _).
      pose proof (deliver_writes app app_benign cs (EvClosing code reason)) as DW.
      pose proof (deliver_wok app app_benign cs (EvClosing code reason)) as DK.
      rewrite Ed in *. cbn [fst] in DW, DK.
      assert (Hs0 : k_sent_close_time cd = None) by (rewrite D6; exact Hsc).
      destruct (RW R0 cd Hs0) as [R1 R2].
      destruct (regular_quiet cf app app_benign no_ping_timeout cd Hs0) as (Q1 & _).
      destruct (regular cf app cd) as [c2 st2]. cbn [fst snd] in *. subst st2.
      split; [rewrite R1; exact DW|intros w0; apply R2, DK, w0]. }
    destruct (in_feed_yield cf app cs (EvClosing code reason)) as [c2 st2]. cbn [fst snd] in *. subst st2. cbv beta iota.
    assert (Hcl2 : k_closed c2 = false) by (rewrite Z4; exact Hcl).
    assert (Hcg2 : k_closing c2 = false) by (rewrite Z3; exact Hcg).
    destruct (ws_close_fields c2 code reason Hcl2) as (F1 & F2 & F3 & F4 & F5).
    destruct (ext_ws_close c2 code reason) as (lw & Elw & Flw).
    set (c3 := (fst (ws_close c2 code reason)) <| k_closing := true |>) in *.
    assert (Hps3 : k_ps c3 = s') by (change (k_ps c3) with (k_ps (fst (ws_close c2 code reason))); rewrite F1, Z1; reflexivity).
    assert (Hok3 : fp_ok (k_ps c3)) by (rewrite Hps3, Hab'; unfold fp_ok, st_ok; cbn; lia).
    exists c3. split.
    { rewrite feedf_unfold by exact Hok3. unfold feed_body. change (k_closed c3) with (k_closed (fst (ws_close c2 code reason))). rewrite F2.
      change (fp_pull (k_ps c3) []) with (NeedMore (item:=pitem) (err:=perr) (k_ps c3)). cbv beta iota.
      rewrite set_ps_same. reflexivity. }
    change (k_tr c3) with (k_tr (fst (ws_close c2 code reason))).
    split; [rewrite Elw, (msg_events_not_event lw _ Flw), Y3; change (k_tr cs) with (k_tr c1); rewrite M1; reflexivity|].
    split; [rewrite Elw, perrors_nope by (eapply Forall_impl; [exact not_event_nope|exact Flw]); rewrite Y4; change (k_tr cs) with (k_tr c1); exact P1|].
    split; [reflexivity|]. split; [exact F2|].
    intros R0 Au Hw.
    destruct (W1 R0 Au Hw) as (Hw1 & Ew1).
    destruct (WY R0) as (Ew2 & Hw2).
    assert (Hwcs : wok cs) by exact Hw1. specialize (Hw2 Hwcs). destruct Hw2 as (K1 & K2 & K3).
    assert (Hpl125 : blen (close_payload code reason) <= 125) by (rewrite (good_close_payload _ _ _ Hgood); exact Hlen).
    destruct (close_writes_the_close_frame c2 code reason K1 Hcl2 Hcg2 Hpl125 ltac:(rewrite K2; exact I)) as (T1 & _ & _).
    cbv zeta in T1. rewrite T1, writes_write. rewrite (good_close_payload _ _ _ Hgood).
    rewrite wview_build; [|apply next_key_length; exact K3|reflexivity|lia].
    rewrite Ew2. change (k_tr cs) with (k_tr c1). rewrite Ew1. reflexivity.
  Qed.
End CloseStream.

(* ====================================================================================================== *)
(* client-initiated direction: the client has sent its Close (closing); the server's Close completes the handshake *)
Lemma send_frame_closing_writes c op r p : k_closing c = true -> writes (k_tr (fst (send_frame c op r p))) = writes (k_tr c).
Proof. intros H. destruct (send_refused_after_close c op r p (or_introl H)) as (x & _ & _ & E). rewrite E. reflexivity. Qed.

Lemma send_data_closing_writes c op p z : k_closing c = true -> writes (k_tr (fst (send_data c op p z))) = writes (k_tr c).
Proof.
  intros H. unfold send_data. destruct (k_deflate c) as [d|]; [|apply send_frame_closing_writes; exact H].
  destruct z; [|apply send_frame_closing_writes; exact H].
  destruct (k_ctape c) as [|z0 zs]; cbv zeta; destruct (c_reset d); rewrite send_frame_closing_writes by exact H; reflexivity.
Qed.

Lemma api_send_closing_writes c a : send_action (ACall a) -> k_closing c = true ->
  writes (k_tr (fst (api_call c a))) = writes (k_tr c).
Proof.
  intros Ha H. destruct a; cbn [api_call send_action] in *; try contradiction;
    try (apply send_data_closing_writes; exact H);
    (destruct (125 <? blen payload); [reflexivity|apply send_frame_closing_writes; exact H]).
Qed.

Section ClientClose.
  Variable cf : cfg.
  Variable app : strategy.
  Hypothesis app_benign : benign app.
  Hypothesis no_ping_timeout : zpos (c_ping_timeout cf) = None.
  Hypothesis no_close_timeout : zpos (c_close_timeout cf) = None.

  Lemma deliver_closing_writes c e : k_closing c = true -> writes (k_tr (fst (deliver app c e))) = writes (k_tr c).
  Proof. intros _. apply deliver_writes. exact app_benign. Qed.

  (* housekeeping while closing, with no timeout configured: Polls only; the automatic Ping is refused *)
  Lemma regular_closing c : k_closing c = true ->
    snd (regular cf app c) = SOk /\ same_core c (fst (regular cf app c)) /\
    msg_events (k_tr (fst (regular cf app c))) = msg_events (k_tr c) /\
    writes (k_tr (fst (regular cf app c))) = writes (k_tr c).
  Proof.
    intros Hc. unfold regular. destruct (negb (k_ready c)); [repeat split; try reflexivity; apply same_core_refl|].
    rewrite no_ping_timeout, no_close_timeout.
    set (t := session_time c).
    assert (P : exists c1, (match k_poll_start c with
                 | Some ps => if (t - ps >=? c_poll cf)%Z then deliver app (c <| k_poll_start := Some t |>) EvPoll else (c, SOk)
                 | None => deliver app (c <| k_poll_start := Some t |>) EvPoll end) = (c1, SOk)
               /\ same_core c c1 /\ msg_events (k_tr c1) = msg_events (k_tr c) /\ writes (k_tr c1) = writes (k_tr c)).
    { assert (D : exists c1, deliver app (c <| k_poll_start := Some t |>) EvPoll = (c1, SOk) /\ same_core c c1 /\
                  msg_events (k_tr c1) = msg_events (k_tr c) /\ writes (k_tr c1) = writes (k_tr c)).
      { set (cq := c <| k_poll_start := Some t |>).
        assert (Hcq : k_closing cq = true) by exact Hc.
        pose proof (deliver_closing_writes cq EvPoll Hcq) as W1.
        destruct (deliver_benign app app_benign cq EvPoll) as (c1 & E1 & C1 & M1). rewrite E1 in W1.
        exists c1. split; [exact E1|]. split; [eapply same_core_trans; [|exact C1]; unfold same_core; cbn; tauto|]. split; [exact M1|exact W1]. }
      destruct (k_poll_start c) as [ps|]; [destruct (_ >=? _)%Z|]; try exact D.
      exists c. repeat split; try reflexivity. }
    destruct P as (c1 & E1 & C1 & M1 & W1). rewrite E1.
    set (c2 := if _ && _ then _ else c1).
    assert (C2 : same_core c1 c2 /\ msg_events (k_tr c2) = msg_events (k_tr c1) /\ writes (k_tr c2) = writes (k_tr c1)).
    { unfold c2. destruct (_ && _); [|split; [apply same_core_refl|split; reflexivity]].
      set (c' := c1 <| k_next_ping := (Conn.ceil_div t (c_ping_rate cf) * c_ping_rate cf)%Z |>).
      destruct (send_frame_core c' OP_PING false [] ltac:(discriminate)) as [A B].
      assert (Hc' : k_closing c' = true) by (destruct C1 as (_&_&S3&_); change (k_closing c') with (k_closing c1); congruence).
      split; [eapply same_core_trans; [|exact A]; unfold same_core; cbn; tauto|]. split; [rewrite B; reflexivity|].
      rewrite (send_frame_closing_writes c' OP_PING false [] Hc'). reflexivity. }
    destruct C2 as (C2 & M2 & W2). cbn [fst snd].
    split; [reflexivity|]. split; [eapply same_core_trans; eauto|]. split; congruence.
  Qed.

  (* the client is closing, the parser between two frames, no message open *)
  Definition closing_idle (c : conn) : Prop :=
    k_closed c = false /\ k_closing c = true /\ k_deflate c = None /\ k_frames c = [] /\ at_boundary (k_ps c) false UAcc.

  (* the server's Close -- empty, or a valid code and a UTF-8 reason, in any length form, followed by ANY bytes -- completes the
     handshake: exactly one Closed event with the server's code and reason, the websocket is closed (the loop then ends with a
     graceful Disconnected: closed_ends_gracefully), nothing is written, and nothing after the Close frame is parsed *)
  Theorem client_close_completed c f lf code reason rest :
    closing_idle c ->
    plain f -> f_op f = OP_CLOSE -> f_fin f = true -> blen (f_payload f) <= 125 -> form_ok lf (blen (f_payload f)) = true ->
    good_close (f_payload f) code reason ->
    exists c', feedf cf app c (enc_frame f lf ++ rest) = (c', SOk) /\
      msg_events (k_tr c') = EvClosed code reason :: msg_events (k_tr c) /\
      k_closed c' = true /\ writes (k_tr c') = writes (k_tr c).
  Proof.
    intros (Hcl & Hcg & Hdf & Hfr & Hab) Hpf Hop Hfin Hlen Hform Hgood.
    assert (Hv : validate_err false (hdr_of f) (blen (f_payload f)) = false).
    { unfold validate_err, hdr_of. cbn [h_r1 h_r2 h_r3 h_op h_fin]. rewrite Hop, Hfin.
      replace (125 <? blen (f_payload f)) with false by (symmetry; apply N.ltb_ge; exact Hlen). reflexivity. }
    assert (Hutf : textual f false = true -> uvalidate UAcc (f_payload f) = Some UAcc).
    { unfold textual. rewrite Hop. cbn. discriminate. }
    destruct (pull_one_frame (k_ps c) false UAcc f lf rest UAcc Hab Hpf Hform Hv Hutf) as (s' & Hpull & Hab').
    rewrite feedf_unfold by (rewrite Hab; unfold fp_ok, st_ok; cbn; lia). unfold feed_body. rewrite Hcl, Hpull.
    set (cs := c <| k_ps := s' |>).
    assert (Hvalid : (match code with Some n => invalid_close_code n | None => false end) = false).
    { destruct Hgood as [(_ & -> & _)|(a & b & _ & _ & -> & Hc)]; [reflexivity|exact Hc]. }
    assert (Hitem : on_item cf app cs (IFrame f) = on_message cf app cs (MClose code reason)).
    { unfold on_item, stream_frame. rewrite Hop. change (is_control OP_CLOSE) with true. cbv iota.
      rewrite (build_plain cs [f] f [] eq_refl) by (constructor; [destruct Hpf as (A & _); exact A|constructor]).
      cbv zeta. rewrite payload_of_one, Hop. change (OP_CLOSE =? OP_BINARY) with false. change (OP_CLOSE =? OP_TEXT) with false.
      change (OP_CLOSE =? OP_CLOSE) with true. cbv iota.
      destruct Hgood as [(-> & -> & ->)|(a & b & -> & Hu8 & -> & Hc)]; [reflexivity|rewrite Hu8; reflexivity]. }
    rewrite Hitem, (server_close_completes_handshake cf app cs code reason Hcl Hcg Hvalid).
    unfold feed_yield, in_feed_yield. cbn [on_event].
    destruct (deliver_benign app app_benign cs (EvClosed code reason)) as (c1 & E1 & (A1&A2&A3&A4&A5&A6&A7&A8) & M1).
    pose proof (deliver_closing_writes cs (EvClosed code reason) Hcg) as W1. rewrite E1 in W1. cbn [fst] in W1.
    rewrite E1. cbv beta iota.
    assert (Hcg1 : k_closing c1 = true) by (rewrite A3; exact Hcg).
    destruct (regular_closing c1 Hcg1) as (R1 & (S1&S2&S3&S4&S5&S6&S7&S8) & R3 & R4).
    destruct (regular cf app c1) as [c2 st2]. cbn [fst snd] in *. subst st2. cbv beta iota.
    set (c3 := c2 <| k_closed := true |> <| k_closing := false |>).
    exists c3. split.
    { unfold feedf. cbn [feed]. change (k_closed c3) with true. reflexivity. }
    change (k_tr c3) with (k_tr c2).
    split; [rewrite R3, M1; reflexivity|]. split; [reflexivity|]. rewrite R4, W1. reflexivity.
  Qed.
End ClientClose.
