(* C07: Ready at most once; Text, Binary, Ping, Pong, Poll, Closing, Closed (and Unresponsive) only after Ready --
   for every configuration, application strategy and environment script. *)
From Coq Require Import List NArith ZArith Lia Bool.
From Coq.Strings Require Import Byte.
From RecordUpdate Require Import RecordSet.
From Model Require Import Bytes Utf8 Frame Parser FrameParser Response Conn.
From Proofs Require Import ParserFacts FrameParserFacts ConnFacts ApiFacts TraceFacts RunFacts ShapeFacts.
Import ListNotations RecordSetNotations.
Open Scope N_scope.

(* ---------- the parser: one header block first, frames ever after ---------- *)
Definition hs (s : fpst) : Prop := fp_phase (pg s) = FHeaders.

Lemma fp_validate_phase g c g' : fp_validate g c = Some g' -> fp_phase g' = fp_phase g.
Proof. unfold fp_validate. destruct (uvalidate (fp_u g) c); [|discriminate]. intros H; inversion H; reflexivity. Qed.

Lemma fp_pull_hs s d : hs s ->
  match fp_pull s d with
  | Item x s' _ => (exists data, x = IHeader data) /\ ~ hs s'
  | NeedMore s' => hs s'
  | Err _ => True
  end.
Proof.
  intros H. unfold fp_pull, hs.
  apply (pullf_class fpg pitem perr CRLFCRLF fp_resume fp_validate PE_Utf8 PE_HeaderTooLong
           (fun g => fp_phase g = FHeaders) (fun g => fp_phase g <> FHeaders) (fun x => exists data, x = IHeader data)).
  - intros g c g' Hg Hv. rewrite (fp_validate_phase _ _ _ Hv). exact Hg.
  - intros g buf Hg. unfold fp_resume. rewrite Hg. split; [eauto|]. cbn. discriminate.
  - exact H.
Qed.

Lemma finish_frame_class g h key payload :
  match finish_frame g h key payload with
  | RItem x g' _ _ => (exists f, x = IFrame f) /\ fp_phase g' <> FHeaders
  | RAwait g' _ _ => fp_phase g' <> FHeaders
  | RErr _ => True
  end.
Proof. unfold finish_frame. destruct (h_mask h); [exact I|]. split; [eauto|]. cbn. discriminate. Qed.

Lemma after_mask_class g h len key :
  match after_mask g h len key with
  | RItem x g' _ _ => (exists f, x = IFrame f) /\ fp_phase g' <> FHeaders
  | RAwait g' _ _ => fp_phase g' <> FHeaders
  | RErr _ => True
  end.
Proof.
  unfold after_mask. destruct (validate_err _ _ _); [exact I|]. cbv zeta.
  destruct (len =? 0); [apply finish_frame_class|]. cbn. discriminate.
Qed.

Lemma after_len_class g h len :
  match after_len g h len with
  | RItem x g' _ _ => (exists f, x = IFrame f) /\ fp_phase g' <> FHeaders
  | RAwait g' _ _ => fp_phase g' <> FHeaders
  | RErr _ => True
  end.
Proof.
  unfold after_len. destruct (_ <? len); [exact I|]. destruct (h_mask h); [cbn; discriminate|apply after_mask_class].
Qed.

Lemma fp_pull_frames s d : ~ hs s ->
  match fp_pull s d with
  | Item x s' _ => (exists f, x = IFrame f) /\ ~ hs s'
  | NeedMore s' => ~ hs s'
  | Err _ => True
  end.
Proof.
  intros H. unfold fp_pull, hs.
  apply (pullf_class fpg pitem perr CRLFCRLF fp_resume fp_validate PE_Utf8 PE_HeaderTooLong
           (fun g => fp_phase g <> FHeaders) (fun g => fp_phase g <> FHeaders) (fun x => exists f, x = IFrame f)).
  - intros g c g' Hg Hv. rewrite (fp_validate_phase _ _ _ Hv). exact Hg.
  - intros g buf Hg. unfold fp_resume. destruct (fp_phase g) eqn:Ep; try congruence.
    + cbv zeta. destruct (_ =? 126); [cbn; discriminate|]. destruct (_ =? 127); [cbn; discriminate|]. apply after_len_class.
    + apply after_len_class.
    + apply after_len_class.
    + apply after_mask_class.
    + apply finish_frame_class.
  - exact H.
Qed.

Lemma hs_enable_compression s : hs (fp_enable_compression s) <-> hs s.
Proof. unfold hs, fp_enable_compression. cbn. tauto. Qed.

(* ---------- the two-state reading of the event sequence ---------- *)
(* false = Ready not yet seen, true = Ready seen; None = the sequence is not allowed *)
Definition ev_step (b : bool) (e : ev) : option bool :=
  match e with
  | EvReady _ _ => if b then None else Some true
  | EvText _ | EvBinary _ | EvPing _ | EvPong _ | EvPoll | EvClosing _ _ | EvClosed _ _ | EvUnresponsive =>
      if b then Some true else None
  | _ => Some b
  end.
(* the trace is kept most recent first *)
Fixpoint rstate (tr : list titem) : option bool :=
  match tr with
  | [] => Some false
  | TEv e :: r => match rstate r with Some b => ev_step b e | None => None end
  | _ :: r => rstate r
  end.

Definition after_item (x : titem) : Prop := match x with TEv (EvReady _ _) => False | _ => True end.
Definition before_item (x : titem) : Prop := match x with TEv e => ev_step false e = Some false | _ => True end.

Lemma rstate_after l : forall tr, Forall after_item l -> rstate tr = Some true -> rstate (l ++ tr) = Some true.
Proof.
  induction l as [|x l IH]; intros tr Hl Ht; [exact Ht|].
  inversion Hl as [|? ? Hx Hl']; subst. specialize (IH tr Hl' Ht).
  destruct x as [e| | | | | | | | | |]; cbn [app rstate]; try exact IH.
  rewrite IH. destruct e; cbn in *; try reflexivity. contradiction.
Qed.
Lemma rstate_before l : forall tr, Forall before_item l -> rstate tr = Some false -> rstate (l ++ tr) = Some false.
Proof.
  induction l as [|x l IH]; intros tr Hl Ht; [exact Ht|].
  inversion Hl as [|? ? Hx Hl']; subst. specialize (IH tr Hl' Ht).
  destruct x as [e| | | | | | | | | |]; cbn [app rstate]; try exact IH.
  rewrite IH. exact Hx.
Qed.

Lemma not_event_after x : not_event x -> after_item x.
Proof. destruct x; cbn; auto. contradiction. Qed.
Lemma not_event_before x : not_event x -> before_item x.
Proof. destruct x; cbn; auto. contradiction. Qed.
Lemma housekeeping_after x : housekeeping x -> after_item x.
Proof. destruct x as [e| | | | | | | | | |]; cbn; auto. destruct e; cbn; auto. Qed.

(* the flag and the trace agree *)
Definition good (c : conn) : Prop := rstate (k_tr c) = Some (k_ready c).

Lemma good_after c c' : good c -> k_ready c = true -> ext_by after_item c c' -> k_ready c' = true -> good c'.
Proof. unfold good. intros G R (l & E & F) R'. rewrite E, R'. apply rstate_after; [exact F|]. rewrite G, R. reflexivity. Qed.
Lemma good_before c c' : good c -> k_ready c = false -> ext_by before_item c c' -> k_ready c' = false -> good c'.
Proof. unfold good. intros G R (l & E & F) R'. rewrite E, R'. apply rstate_before; [exact F|]. rewrite G, R. reflexivity. Qed.

(* ---------- instances of the frame argument ---------- *)
Definition rmono (c c' : conn) : Prop := k_ready c = true -> k_ready c' = true.
Ltac inst_rm L := first [eapply L with (P := rmono) (ok_item := fun _ => True) | eapply L with (P := rmono)];
                  try (intros c0; unfold rmono, close_socket; destruct (k_sock c0); cbn; auto; fail);
                  try (intros; apply send_from_emit with (ok_item := fun _ => True));
                  try (unfold rmono; intros; cbn; auto; fail); try (unfold rmono; intros; eauto);
                  try (intros; exact I); try (match goal with e0 : ev |- _ => destruct e0; exact I end).

Definition same_rd (c c' : conn) : Prop := k_ready c' = k_ready c.
Ltac inst_sr L := first [eapply L with (P := same_rd) (ok_item := fun _ => True) | eapply L with (P := same_rd)];
                  try (intros c0; unfold same_rd, close_socket; destruct (k_sock c0); reflexivity);
                  try (intros; apply send_from_emit with (ok_item := fun _ => True));
                  try (intros; reflexivity); try (unfold same_rd; intros; congruence); try (intros; exact I).

Ltac inst_af L := ext_inst L after_item; try (intros e0; destruct e0; exact I).

Lemma sr_do_actions c acts : k_ready (fst (do_actions c acts)) = k_ready c.
Proof. change (same_rd c (fst (do_actions c acts))). inst_sr fr_do_actions. Qed.
Lemma sr_close_socket c : k_ready (close_socket c) = k_ready c.
Proof. unfold close_socket. destruct (k_sock c); reflexivity. Qed.
Lemma sr_on_disconnect c : k_ready (on_disconnect c) = k_ready c.
Proof. unfold on_disconnect. cbn. apply sr_close_socket. Qed.
Lemma sr_ws_close c code reason : k_ready (fst (ws_close c code reason)) = k_ready c.
Proof. change (same_rd c (fst (ws_close c code reason))). inst_sr fr_ws_close. Qed.
Lemma ps_do_actions c acts : k_ps (fst (do_actions c acts)) = k_ps c.
Proof. change (same_ps c (fst (do_actions c acts))). inst_frame fr_do_actions. Qed.
Lemma ps_close_socket c : k_ps (close_socket c) = k_ps c.
Proof. unfold close_socket. destruct (k_sock c); reflexivity. Qed.

Section WithCfg.
  Variable cf : cfg.
  Variable app : strategy.

  Lemma sr_deliver c e : k_ready (fst (deliver app c e)) = k_ready c.
  Proof. unfold deliver. rewrite sr_do_actions. reflexivity. Qed.
  Lemma ps_deliver c e : k_ps (fst (deliver app c e)) = k_ps c.
  Proof. unfold deliver. rewrite ps_do_actions. reflexivity. Qed.
  Lemma ps_regular c : k_ps (fst (regular cf app c)) = k_ps c.
  Proof. change (same_ps c (fst (regular cf app c))). inst_frame fr_regular. Qed.

  (* after Ready: nothing ever yields Ready again, and the flag stays *)
  Lemma af_regular c : ext_by after_item c (fst (regular cf app c)).
  Proof. eapply ext_weaken; [exact housekeeping_after|apply ext_regular]. Qed.
  Lemma af_raise_in_feed c e : ext_by after_item c (fst (raise_in_feed cf app c e)).
  Proof. inst_af fr_raise_in_feed. Qed.
  Lemma af_on_item_frame c f : ext_by after_item c (fst (fst (on_item cf app c (IFrame f)))).
  Proof. inst_af fr_on_item_frame. Qed.

  Lemma rm_regular c : rmono c (fst (regular cf app c)).
  Proof. inst_rm fr_regular. Qed.
  Lemma rm_raise_in_feed c e : rmono c (fst (raise_in_feed cf app c e)).
  Proof. inst_rm fr_raise_in_feed. Qed.
  Lemma rm_on_item_frame c f : rmono c (fst (fst (on_item cf app c (IFrame f)))).
  Proof. inst_rm fr_on_item_frame. Qed.
  Lemma rm_deliver c e : rmono c (fst (deliver app c e)).
  Proof. unfold rmono. rewrite sr_deliver. auto. Qed.
End WithCfg.

Section Ready.
  Variable cf : cfg.
  Variable app : strategy.

  (* ---------- before Ready ---------- *)
  Definition pre_ev (e : ev) : Prop := match e with EvRejected | EvProtocolError _ => True | _ => False end.

  Lemma regular_not_ready c : k_ready c = false -> regular cf app c = (c, SOk).
  Proof. intros H. unfold regular. rewrite H. reflexivity. Qed.

  Lemma bf_in_feed_yield c e : pre_ev e -> k_ready c = false ->
    ext_by before_item c (fst (in_feed_yield cf app c e)) /\ k_ready (fst (in_feed_yield cf app c e)) = false.
  Proof.
    intros He Hr. unfold in_feed_yield.
    assert (Eo : on_event cf c e = (c, SOk)) by (destruct e; try contradiction; reflexivity). rewrite Eo.
    destruct (deliver_trace app c e) as (l & E & F). pose proof (sr_deliver app c e) as S.
    destruct (deliver app c e) as [c1 st]. cbn [fst] in *.
    assert (X : ext_by before_item c c1).
    { exists (l ++ [TEv e]). split; [rewrite E, <- app_assoc; reflexivity|].
      apply Forall_app; split; [eapply Forall_impl; [exact not_event_before|exact F]|].
      constructor; [|constructor]. destruct e; try contradiction; reflexivity. }
    destruct st; cbn [fst]; try (split; [exact X|congruence]).
    rewrite regular_not_ready by congruence. cbn [fst]. split; [exact X|congruence].
  Qed.

  Definition bf_post (post : conn -> conn * status) : Prop :=
    forall c1, k_ready c1 = false -> ext_by before_item c1 (fst (post c1)) /\ k_ready (fst (post c1)) = false.

  Lemma bf_feed_yield c e post : pre_ev e -> k_ready c = false -> bf_post post ->
    ext_by before_item c (fst (feed_yield cf app c e post)) /\ k_ready (fst (feed_yield cf app c e post)) = false.
  Proof.
    intros He Hr Hp. unfold feed_yield. destruct (bf_in_feed_yield c e He Hr) as [X R].
    destruct (in_feed_yield cf app c e) as [c1 st]. cbn [fst] in *.
    assert (D : ext_by before_item c (on_disconnect c1) /\ k_ready (on_disconnect c1) = false).
    { split; [|rewrite sr_on_disconnect; exact R]. eapply ext_trans; [exact X|].
      eapply ext_weaken; [exact not_event_before|apply ext_on_disconnect]. }
    destruct st; cbn [fst]; try exact D.
    destruct (Hp c1 R) as [X2 R2]. split; [eapply ext_trans; eauto|exact R2].
  Qed.
  Lemma bf_handler_yield c e post : pre_ev e -> k_ready c = false -> bf_post post ->
    ext_by before_item c (fst (handler_yield cf app c e post)) /\ k_ready (fst (handler_yield cf app c e post)) = false.
  Proof.
    intros He Hr Hp. unfold handler_yield. destruct (bf_in_feed_yield c e He Hr) as [X R].
    destruct (in_feed_yield cf app c e) as [c1 st]. cbn [fst] in *.
    destruct st; cbn [fst]; try (split; assumption).
    destruct (Hp c1 R) as [X2 R2]. split; [eapply ext_trans; eauto|exact R2].
  Qed.
  Lemma bf_raise_in_feed c e : k_ready c = false ->
    ext_by before_item c (fst (raise_in_feed cf app c e)) /\ k_ready (fst (raise_in_feed cf app c e)) = false.
  Proof.
    intros Hr. destruct e; unfold raise_in_feed; apply bf_handler_yield; try exact I; try exact Hr; intros c1 R1; cbn [fst].
    - split; [apply ext_refl|exact R1].
    - split; [eapply ext_weaken; [exact not_event_before|apply ext_ws_close]|rewrite sr_ws_close; exact R1].
  Qed.

  (* ---------- the Ready event itself ---------- *)
  Lemma rd_in_feed_yield c proto d : good c -> k_ready c = false ->
    good (fst (in_feed_yield cf app c (EvReady proto d))) /\ k_ready (fst (in_feed_yield cf app c (EvReady proto d))) = true.
  Proof.
    intros G Hr. unfold in_feed_yield. cbn [on_event].
    set (c0 := c <| k_last_pong := 0%Z |> <| k_next_ping := 0%Z |> <| k_start := Some (k_now c) |> <| k_ready := true |>).
    destruct (deliver_trace app c0 (EvReady proto d)) as (l & E & F). pose proof (sr_deliver app c0 (EvReady proto d)) as S.
    destruct (deliver app c0 (EvReady proto d)) as [c1 st]. cbn [fst] in *.
    assert (R1 : k_ready c1 = true) by (rewrite S; reflexivity).
    assert (G1 : good c1).
    { unfold good. rewrite E, R1. apply rstate_after; [eapply Forall_impl; [exact not_event_after|exact F]|].
      cbn [rstate]. change (k_tr c0) with (k_tr c). unfold good in G. rewrite G, Hr. reflexivity. }
    destruct st; cbn [fst]; try (split; assumption).
    pose proof (af_regular cf app c1) as X. pose proof (rm_regular cf app c1 R1) as R2.
    destruct (regular cf app c1) as [c2 st2]. cbn [fst] in *.
    split; [eapply good_after; eauto|exact R2].
  Qed.

  (* ---------- one parser item ---------- *)
  Definition link (c : conn) : Prop :=
    (k_ready c = true -> ~ hs (k_ps c)) /\ (k_ready c = false -> hs (k_ps c) \/ k_closed c = true).

  Lemma closed_raise_ok c e : snd (raise_in_feed cf app c e) <> SOk.
  Proof. apply raise_in_feed_not_ok. Qed.

  Lemma on_item_good c x : good c -> ~ hs (k_ps c) ->
    match x with IHeader _ => k_ready c = false | IFrame _ => k_ready c = true end ->
    good (fst (fst (on_item cf app c x))) /\ link (fst (fst (on_item cf app c x))).
  Proof.
    intros G Hh Hx.
    assert (Hps : ~ hs (k_ps (fst (fst (on_item cf app c x))))).
    { destruct (ps_on_item cf app c x) as [E|E]; cbv zeta in E; rewrite E; [exact Hh|rewrite hs_enable_compression; exact Hh]. }
    destruct x as [data|f].
    - (* the reply to the upgrade request *)
      unfold on_item in *.
      destruct (on_response (c_accept cf) (parse_response data)) as [proto d|].
      + set (c1 := match d with Some dc => c <| k_deflate := Some dc |> <| k_ps ::= fp_enable_compression |> | None => c end) in *.
        assert (G1 : good c1) by (destruct d; exact G).
        assert (R1 : k_ready c1 = false) by (destruct d; exact Hx).
        unfold feed_yield in *.
        destruct (rd_in_feed_yield c1 proto (match d with Some _ => true | None => false end) G1 R1) as [G2 R2].
        destruct (in_feed_yield cf app c1 _) as [c2 st]. cbn [fst] in G2, R2.
        assert (Gd : good (on_disconnect c2) /\ k_ready (on_disconnect c2) = true).
        { split; [|rewrite sr_on_disconnect; exact R2].
          eapply good_after; [exact G2|exact R2| |rewrite sr_on_disconnect; exact R2].
          eapply ext_weaken; [exact not_event_after|apply ext_on_disconnect]. }
        destruct st; cbn [fst] in *.
        * split; [exact G2|]. split; [intros _; exact Hps|congruence].
        * destruct Gd as [Gd Rd]. split; [exact Gd|]. split; [intros _; exact Hps|congruence].
        * destruct Gd as [Gd Rd]. split; [exact Gd|]. split; [intros _; exact Hps|congruence].
      + set (c1 := on_disconnect c) in *.
        assert (R1 : k_ready c1 = false) by (unfold c1; rewrite sr_on_disconnect; exact Hx).
        assert (G1 : good c1).
        { eapply good_before; [exact G|exact Hx| |exact R1]. eapply ext_weaken; [exact not_event_before|apply ext_on_disconnect]. }
        destruct (bf_feed_yield c1 EvRejected (fun c => (c, SOk)) I R1) as [X R2].
        { intros c2 Hc2. cbn [fst]. split; [apply ext_refl|exact Hc2]. }
        pose proof (closed_feed_yield cf app c1 EvRejected (fun c => (c, SOk))) as Hcl.
        specialize (Hcl ltac:(intros c2 Hc2; exact Hc2) eq_refl).
        destruct (feed_yield cf app c1 EvRejected (fun c => (c, SOk))) as [c2 st]. cbn [fst] in *.
        split; [eapply good_before; eauto|]. split; [intros _; exact Hps|intros _; right; exact Hcl].
    - (* a frame *)
      pose proof (af_on_item_frame cf app c f) as X. pose proof (rm_on_item_frame cf app c f Hx) as R.
      split; [eapply good_after; eauto|]. split; [intros _; exact Hps|congruence].
  Qed.

  (* ---------- WebSocket.feed ---------- *)
  Lemma feed_good fuel : forall c d, good c -> link c ->
    good (fst (feed cf app fuel c d)) /\ (snd (feed cf app fuel c d) = SOk -> link (fst (feed cf app fuel c d))).
  Proof.
    induction fuel as [|fuel IH]; intros c d G L; [cbn; auto|].
    rewrite feed_S. unfold feed_body. destruct (k_closed c) eqn:Ecl; [cbn; auto|].
    destruct L as [L1 L2].
    assert (Cases : (k_ready c = true /\ ~ hs (k_ps c)) \/ (k_ready c = false /\ hs (k_ps c))).
    { destruct (k_ready c) eqn:Er; [left; auto|right]. split; [reflexivity|].
      destruct (L2 eq_refl) as [H|H]; [exact H|congruence]. }
    assert (Err_case : forall e, good (fst (raise_in_feed cf app (c <| k_ps := fp_init |>) e)) /\
                                 (snd (raise_in_feed cf app (c <| k_ps := fp_init |>) e) = SOk -> link (fst (raise_in_feed cf app (c <| k_ps := fp_init |>) e)))).
    { intros e. split; [|intros H; exfalso; exact (raise_in_feed_not_ok cf app _ e H)].
      set (c' := c <| k_ps := fp_init |>).
      assert (G' : good c') by exact G.
      destruct (k_ready c') eqn:Er.
      - eapply good_after; [exact G'|exact Er|apply (af_raise_in_feed cf app c' e)|].
        apply (rm_raise_in_feed cf app c' e). exact Er.
      - destruct (bf_raise_in_feed c' e Er) as [X R]. eapply good_before; [exact G'|exact Er|exact X|exact R]. }
    assert (Item_case : forall x s rest, ~ hs s ->
              match x with IHeader _ => k_ready c = false | IFrame _ => k_ready c = true end ->
              let r := (let '(c1, st, fs) := on_item cf app (c <| k_ps := s |>) x in
                        match st, fs with SOk, FContinue => feed cf app fuel c1 rest | _, _ => (c1, st) end) in
              good (fst r) /\ (snd r = SOk -> link (fst r))).
    { intros x s rest Hs Hx. cbv zeta.
      set (cs := c <| k_ps := s |>).
      assert (Gs : good cs) by exact G.
      assert (Hs' : ~ hs (k_ps cs)) by exact Hs.
      destruct (on_item_good cs x Gs Hs') as [G1 L1'].
      { destruct x; exact Hx. }
      destruct (on_item cf app cs x) as [[c1 st] fs]. cbn [fst] in G1, L1'.
      destruct st; [destruct fs|..]; cbn [fst snd]; try (split; [exact G1|intros _; exact L1']); try (split; [exact G1|discriminate]).
      apply IH; assumption. }
    destruct Cases as [[Er Hh]|[Er Hh]].
    - pose proof (fp_pull_frames (k_ps c) d Hh) as Hp.
      destruct (fp_pull (k_ps c) d) as [x s rest|s|e].
      + destruct Hp as [[f ->] Hs]. apply Item_case; assumption.
      + cbn [fst snd]. split; [exact G|]. intros _. split; [intros _; exact Hp|cbn; congruence].
      + apply Err_case.
    - pose proof (fp_pull_hs (k_ps c) d Hh) as Hp.
      destruct (fp_pull (k_ps c) d) as [x s rest|s|e].
      + destruct Hp as [[data ->] Hs]. apply Item_case; assumption.
      + cbn [fst snd]. split; [exact G|]. intros _. split; [cbn; congruence|intros _; left; exact Hp].
      + apply Err_case.
  Qed.

  (* ---------- the loop and the whole run ---------- *)
  Definition rok (c : conn) : Prop := rstate (k_tr c) <> None.

  Definition both_item (x : titem) : Prop := match x with TEv e => forall b, ev_step b e = Some b | _ => True end.
  Lemma rstate_both l : forall tr, Forall both_item l -> rstate (l ++ tr) = rstate tr.
  Proof.
    induction l as [|x l IH]; intros tr Hl; [reflexivity|].
    inversion Hl as [|? ? Hx Hl']; subst. specialize (IH tr Hl').
    destruct x as [e| | | | | | | | | |]; cbn [List.app rstate]; try exact IH.
    rewrite IH. destruct (rstate tr) as [b|]; [apply Hx|reflexivity].
  Qed.
  Lemma not_event_both x : not_event x -> both_item x.
  Proof. destruct x; cbn; auto. contradiction. Qed.

  Lemma finish_rstate c st : rstate (k_tr (finish app c st)) = rstate (k_tr c).
  Proof.
    assert (F : forall c0, rstate (k_tr (close_socket (emit TSelClose c0))) = rstate (k_tr c0)).
    { intros c0. destruct (ext_close_socket (emit TSelClose c0)) as (l & E & Fl). rewrite E.
      rewrite rstate_both by (eapply Forall_impl; [exact not_event_both|exact Fl]). reflexivity. }
    assert (D : forall g, rstate (k_tr (fst (deliver app (close_socket c) (EvDisconnected g)))) = rstate (k_tr c)).
    { intros g. destruct (deliver_trace app (close_socket c) (EvDisconnected g)) as (l & E & Fl). rewrite E.
      rewrite rstate_both by (eapply Forall_impl; [exact not_event_both|exact Fl]).
      cbn [rstate]. destruct (ext_close_socket c) as (l2 & E2 & F2). rewrite E2.
      rewrite rstate_both by (eapply Forall_impl; [exact not_event_both|exact F2]).
      destruct (rstate (k_tr c)); reflexivity. }
    unfold finish. destruct st.
    - specialize (D true). destruct (deliver app (close_socket c) (EvDisconnected true)) as [c1 st1]. rewrite F. exact D.
    - specialize (D false). destruct (deliver app (close_socket c) (EvDisconnected false)) as [c1 st1]. rewrite F. exact D.
    - apply F.
  Qed.

  Lemma good_rok c : good c -> rok c.
  Proof. unfold good, rok. intros ->. discriminate. Qed.
  Lemma finish_rok c st : good c -> rok (finish app c st).
  Proof. intros G. unfold rok. rewrite finish_rstate. apply good_rok. exact G. Qed.

  Lemma regular_good c : good c -> link c ->
    good (fst (regular cf app c)) /\ link (fst (regular cf app c)).
  Proof.
    intros G L. destruct (k_ready c) eqn:Er.
    - pose proof (af_regular cf app c) as X. pose proof (rm_regular cf app c Er) as R.
      pose proof (ps_regular cf app c) as Ps.
      split; [eapply good_after; eauto|]. split; [intros _; rewrite Ps; apply L; exact Er|congruence].
    - rewrite regular_not_ready by exact Er. auto.
  Qed.

  Lemma advance_good c dt : good c -> link c -> good (advance c dt) /\ link (advance c dt).
  Proof. intros G L. split; [exact G|exact L]. Qed.

  Theorem loop_rok steps : forall c, good c -> link c -> rok (loop cf app steps c).
  Proof.
    induction steps as [|st rest IH]; intros c G L; cbn [loop].
    - destruct (k_closed c); [apply finish_rok; exact G|]. apply good_rok. exact G.
    - destruct (k_closed c); [apply finish_rok; exact G|].
      destruct st as [dt|dt r|dt].
      + destruct (advance_good c dt G L) as [G0 L0].
        destruct (regular_good (advance c dt) G0 L0) as [G1 L1].
        destruct (regular cf app (advance c dt)) as [c1 s1]. cbn [fst] in *.
        destruct s1; [apply IH; assumption|apply finish_rok; exact G1..].
      + destruct (advance_good c dt G L) as [G0 L0].
        destruct (regular_good (advance c dt) G0 L0) as [G1 L1].
        destruct (regular cf app (advance c dt)) as [c1 s1]. cbn [fst] in *.
        destruct s1; [|apply finish_rok; exact G1..].
        destruct (if k_sock c1 then r else REof) as [d| | |]; try (apply finish_rok; exact G1).
        * destruct d as [|b d]; [destruct (is_active c1); apply finish_rok; exact G1|].
          unfold feedf. destruct (feed_good (S (S (length (b :: d)))) c1 (b :: d) G1 L1) as [G2 L2].
          destruct (feed cf app (S (S (length (b :: d)))) c1 (b :: d)) as [c2 s2]. cbn [fst snd] in *.
          destruct s2; [apply IH; auto|apply finish_rok; exact G2..].
        * destruct (is_active c1); apply finish_rok; exact G1.
      + apply finish_rok. apply advance_good; assumption.
  Qed.
End Ready.

(* ---------- the reading of rstate as a statement about the chronological event list ---------- *)
Definition is_ready_ev (e : ev) : bool := match e with EvReady _ _ => true | _ => false end.
Definition needs_ready (e : ev) : bool :=
  match e with
  | EvText _ | EvBinary _ | EvPing _ | EvPong _ | EvPoll | EvClosing _ _ | EvClosed _ _ | EvUnresponsive => true
  | _ => false
  end.
Definition quiet (e : ev) : Prop := is_ready_ev e = false /\ needs_ready e = false.

(* chronological: nothing that needs Ready before it, Ready at most once *)
Inductive ready_shape : list ev -> Prop :=
| RsNever l : Forall quiet l -> ready_shape l
| RsOnce pre p d post : Forall quiet pre -> Forall (fun e => is_ready_ev e = false) post ->
    ready_shape (pre ++ EvReady p d :: post).

Lemma rstate_false tr : rstate tr = Some false -> Forall quiet (evs tr).
Proof.
  induction tr as [|x tr IH]; intros H; [constructor|].
  destruct x as [e| | | | | | | | | |]; cbn [rstate evs] in *; try (apply IH; exact H).
  destruct (rstate tr) as [b|]; [|discriminate]. destruct b.
  - destruct e; cbn in H; discriminate.
  - constructor; [|apply IH; reflexivity]. destruct e; cbn in H; try discriminate; split; reflexivity.
Qed.

Lemma rstate_true tr : rstate tr = Some true ->
  exists post p d pre, evs tr = post ++ EvReady p d :: pre /\ Forall (fun e => is_ready_ev e = false) post /\ Forall quiet pre.
Proof.
  induction tr as [|x tr IH]; intros H; [discriminate|].
  destruct x as [e| | | | | | | | | |]; cbn [rstate evs] in *; try (apply IH; exact H).
  destruct (rstate tr) as [b|] eqn:Eb; [|discriminate]. destruct b.
  - destruct (IH eq_refl) as (post & p & d & pre & E & Fp & Fq).
    exists (e :: post), p, d, pre. split; [rewrite E; reflexivity|]. split; [|exact Fq].
    constructor; [|exact Fp]. destruct e; cbn in H; try discriminate; reflexivity.
  - destruct e; cbn in H; try discriminate.
    exists [], protocol, deflate, (evs tr). split; [reflexivity|]. split; [constructor|apply rstate_false; exact Eb].
Qed.

Lemma rok_shape tr : rstate tr <> None -> ready_shape (rev (evs tr)).
Proof.
  intros H. destruct (rstate tr) as [b|] eqn:Eb; [|congruence]. destruct b.
  - destruct (rstate_true tr Eb) as (post & p & d & pre & E & Fp & Fq). rewrite E, rev_app_distr. cbn [rev].
    rewrite <- app_assoc. cbn [List.app]. apply RsOnce; apply rev_forall; assumption.
  - apply RsNever. apply rev_forall. apply rstate_false. exact Eb.
Qed.

Section Run.
  Variable cf : cfg.
  Variable app : strategy.

  Definition pre (c : conn) : Prop := k_ready c = false /\ hs (k_ps c) /\ rstate (k_tr c) = Some false.

  Lemma pre_good c : pre c -> good c /\ link c.
  Proof. intros (R & H & T). split; [unfold good; rewrite T, R; reflexivity|]. split; [congruence|intros _; left; exact H]. Qed.

  Lemma pre_same c c' : k_ready c' = k_ready c -> k_ps c' = k_ps c -> ext_by before_item c c' -> pre c -> pre c'.
  Proof.
    intros R P (l & E & F) (R0 & H0 & T0). split; [congruence|]. split; [rewrite P; exact H0|].
    rewrite E. apply rstate_before; assumption.
  Qed.

  Lemma pre_deliver c e : ev_step false e = Some false -> pre c -> pre (fst (deliver app c e)).
  Proof.
    intros He Hp. apply (pre_same c); [apply sr_deliver|apply ps_deliver| |exact Hp].
    destruct (deliver_trace app c e) as (l & E & F). exists (l ++ [TEv e]). split; [rewrite E, <- app_assoc; reflexivity|].
    apply Forall_app; split; [eapply Forall_impl; [exact not_event_before|exact F]|]. constructor; [exact He|constructor].
  Qed.
  Lemma pre_close_socket c : pre c -> pre (close_socket c).
  Proof.
    intros Hp. apply (pre_same c); [apply sr_close_socket|apply ps_close_socket| |exact Hp].
    eapply ext_weaken; [exact not_event_before|apply ext_close_socket].
  Qed.

  Lemma rok_close_socket c : rok c -> rok (close_socket c).
  Proof.
    unfold rok. destruct (ext_close_socket c) as (l & E & F). rewrite E.
    rewrite rstate_both by (eapply Forall_impl; [exact not_event_both|exact F]). auto.
  Qed.
  Lemma pre_rok c : pre c -> rok c.
  Proof. intros (_ & _ & T). unfold rok. rewrite T. discriminate. Qed.

  Theorem run_rok c0 cn steps : k_tr c0 = [] -> k_ready c0 = false -> hs (k_ps c0) -> rok (run cf app c0 cn steps).
  Proof.
    intros T0 R0 H0.
    assert (P0 : pre c0) by (split; [exact R0|split; [exact H0|rewrite T0; reflexivity]]).
    assert (W : rok (run_gen cf app c0 cn steps) -> rok (run cf app c0 cn steps)).
    { intros H. unfold run. destruct (k_with _); [apply rok_close_socket; exact H|exact H]. }
    apply W. clear W. unfold run_gen.
    pose proof (pre_deliver c0 EvConnecting eq_refl P0) as P1.
    destruct (deliver app c0 EvConnecting) as [c1 st1]. cbn [fst] in P1.
    destruct st1; [|apply pre_rok; exact P1..].
    destruct cn.
    - set (c2 := c1 <| k_sock := true |>).
      assert (P2 : pre c2) by exact P1.
      match goal with |- context [let '(c3, r) := ?X in _] => destruct X as [c3 r] eqn:EX end.
      assert (P3 : pre c3).
      { destruct (negb (k_sock c2)); [inversion EX; subst; exact P2|].
        destruct (k_closed c2); [inversion EX; subst; exact P2|]. destruct (k_closing c2); [inversion EX; subst; exact P2|].
        unfold pop_wfault in EX. destruct (k_wfaults c2) as [|w ws]; [inversion EX; subst; exact P2|].
        destruct w; inversion EX; subst; exact P2. }
      destruct r as [x|].
      + pose proof (pre_deliver (close_socket c3) EvConnectFail eq_refl (pre_close_socket c3 P3)) as P4.
        destruct (deliver app (close_socket c3) EvConnectFail) as [c4 st4]. apply pre_rok. exact P4.
      + pose proof (pre_deliver c3 EvConnected eq_refl P3) as P4.
        destruct (deliver app c3 EvConnected) as [c4 st4]. cbn [fst] in P4.
        destruct st4; [|apply pre_rok; apply pre_close_socket; exact P4..].
        destruct (pre_good c4 P4) as [G4 L4]. apply loop_rok; assumption.
    - pose proof (pre_deliver c1 EvConnectFail eq_refl P1) as P4.
      destruct (deliver app c1 EvConnectFail) as [c4 st4]. apply pre_rok. exact P4.
    - pose proof (pre_deliver c1 EvConnectFail eq_refl P1) as P4.
      destruct (deliver app c1 EvConnectFail) as [c4 st4]. apply pre_rok. exact P4.
  Qed.

  (* C07: in the chronological event sequence of any connection attempt, Ready occurs at most once and no Text, Binary,
     Ping, Pong, Poll, Closing, Closed or Unresponsive event occurs before it *)
  Theorem run_ready_shape keys wf zt ct cn steps :
    ready_shape (rev (evs (k_tr (run cf app (init keys wf zt ct) cn steps)))).
  Proof. apply rok_shape. apply run_rok; reflexivity. Qed.
End Run.
