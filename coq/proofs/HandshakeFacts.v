(* The upgrade decision and the request. *)
From Coq Require Import String.
From Coq Require Import List NArith Arith Lia Bool.
From Coq.Strings Require Import Byte.
From Model Require Import Bytes Parser FrameParser Response Handshake Conn.
From Proofs Require Import BytesFacts ParserFacts FrameParserFacts.
Import ListNotations.
Open Scope N_scope.

(* Ready is granted exactly when: status 101, Upgrade: websocket (any letter case), an accept value equal to the expected
   digest UP TO LETTER CASE (this is what lomond does: see C10_decision_refuted), and acceptable extension parameters *)
Theorem on_response_ready_iff accept r proto d :
  on_response accept r = HReady proto d <->
  r_status r = Some 101 /\
  (exists u, resp_get r (str "upgrade"%string) = Some u /\ lower_s u = str "websocket"%string) /\
  (exists a, resp_get r (str "sec-websocket-accept"%string) = Some a /\ lower_s a = lower_s accept) /\
  process_extensions (resp_get_list r (str "sec-websocket-extensions"%string)) None = Some d /\
  proto = resp_get r (str "sec-websocket-protocol"%string).
Proof.
  unfold on_response. split.
  - intros H. destruct (r_status r) as [st|]; [|discriminate].
    destruct (N.eq_dec st 101) as [->|Hne].
    2:{ exfalso. destruct st as [|p]; [discriminate|]. 
        repeat (destruct p as [p|p|]; try discriminate). congruence. }
    split; [reflexivity|].
    destruct (resp_get r (str "upgrade"%string)) as [u|] eqn:Eu.
    + destruct (bytes_eqb (lower_s u) (str "websocket"%string)) eqn:Eq; cbn [negb] in H; [|discriminate].
      apply bytes_eqb_eq in Eq. split; [exists u; auto|].
      destruct (resp_get r (str "sec-websocket-accept"%string)) as [a|]; [|discriminate].
      destruct (bytes_eqb (lower_s a) (lower_s accept)) eqn:Ea; cbn [negb] in H; [|discriminate].
      apply bytes_eqb_eq in Ea. split; [exists a; auto|].
      destruct (process_extensions _ None) as [d0|]; [|discriminate].
      inversion H; subst. auto.
    + exfalso. cbn in H. discriminate.
  - intros (Hs & (u & Eu & Hu) & (a & Ea & Ha) & Hx & ->). rewrite Hs, Eu.
    assert (E1 : bytes_eqb (lower_s u) (str "websocket"%string) = true) by (apply bytes_eqb_eq; exact Hu).
    rewrite E1. cbn [negb]. rewrite Ea.
    assert (E2 : bytes_eqb (lower_s a) (lower_s accept) = true) by (apply bytes_eqb_eq; exact Ha).
    rewrite E2. cbn [negb]. rewrite Hx. reflexivity.
Qed.

(* anything else is Rejected: there are only two outcomes *)
Theorem on_response_cases accept r : (exists p d, on_response accept r = HReady p d) \/ on_response accept r = HRejected.
Proof. destruct (on_response accept r) as [p d|]; [left; eauto|right; reflexivity]. Qed.

(* the full statement of C10 asks for equality with the digest; the code compares case-insensitively *)
Definition full_statement : Prop :=
  forall accept r p d, on_response accept r = HReady p d ->
    exists a, resp_get r (str "sec-websocket-accept"%string) = Some a /\ a = accept.

Definition witness_reply : bytes :=
  str "HTTP/1.1 101 Switching Protocols"%string ++ CRLF ++ str "Upgrade: websocket"%string ++ CRLF ++
  str "Sec-WebSocket-Accept: s3pplmbitxaq9kygzzhzrbk+xoo="%string ++ CRLFCRLF.
Definition witness_accept : bytes := str "s3pPLMBiTxaQ9kYGzzhZRbK+xOo="%string.

Theorem full_statement_refuted : ~ full_statement.
Proof.
  intros H.
  assert (E : on_response witness_accept (parse_response witness_reply) = HReady None None) by (vm_compute; reflexivity).
  destruct (H _ _ _ _ E) as (a & Ea & Eq).
  assert (Ea' : resp_get (parse_response witness_reply) (str "sec-websocket-accept"%string)
                = Some (str "s3pplmbitxaq9kygzzhzrbk+xoo="%string)) by (vm_compute; reflexivity).
  rewrite Ea' in Ea. injection Ea as Ea2. rewrite <- Ea2 in Eq. vm_compute in Eq. discriminate.
Qed.

(* a header block that crosses 16 KiB -- whether or not it is ever terminated -- is a parse error, which WebSocket.feed
   turns into a (critical) ProtocolError; no header item, hence no Ready, is produced *)
Theorem header_block_too_long d :
  16384 < N.of_nat (length d) ->
  (forall i, find_sep CRLFCRLF d = Some i -> 16384 < N.of_nat (i + 4)) ->
  fp_pull fp_init d = Err PE_HeaderTooLong.
Proof.
  intros Hl Hf. unfold fp_pull, pullf. destruct d as [|b0 d0]; [cbn in Hl; lia|].
  cbn [pull]. unfold pull_body. cbn [paw pbuf fp_init app].
  destruct (find_sep CRLFCRLF (b0 :: d0)) as [i|] eqn:F.
  - specialize (Hf i eq_refl). unfold too_long.
    replace (16384 <? N.of_nat (i + length CRLFCRLF)) with true; [reflexivity|].
    symmetry. apply N.ltb_lt. change (length CRLFCRLF) with 4%nat. exact Hf.
  - unfold too_long. replace (16384 <? N.of_nat (length (b0 :: d0))) with true; [reflexivity|].
    symmetry. apply N.ltb_lt. exact Hl.
Qed.

(* the request: one request line, the required headers with the values of the URL and of this connection, an empty line *)
Theorem request_shape q :
  build_request q = join CRLF ((str "GET "%string ++ q_resource q ++ str " HTTP/1.1"%string) :: map header_line (request_headers q) ++ [CRLF]) /\
  In (str "Host"%string, q_host q ++ str ":"%string ++ decimal (q_port q)) (request_headers q) /\
  In (str "Upgrade"%string, str "websocket"%string) (request_headers q) /\
  In (str "Connection"%string, str "Upgrade"%string) (request_headers q) /\
  In (str "Sec-WebSocket-Key"%string, q_key q) (request_headers q) /\
  In (str "Sec-WebSocket-Version"%string, decimal (q_version q)) (request_headers q) /\
  (forall h, In h (q_custom q) -> In h (request_headers q)).
Proof.
  unfold request_headers. repeat split; try reflexivity;
    try (apply in_or_app; right; apply in_or_app; left; cbn; tauto).
  intros h Hh. apply in_or_app. left. exact Hh.
Qed.
