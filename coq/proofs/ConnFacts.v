(* Facts about the connection model: which functions touch which fields; the segmentation theorem for feed. *)
From Coq Require Import List NArith ZArith Arith Lia Bool.
From Coq.Strings Require Import Byte.
From RecordUpdate Require Import RecordSet.
From Model Require Import Bytes Utf8 Frame Parser FrameParser Response Conn.
From Proofs Require Import BytesFacts Utf8Facts ParserFacts FrameParserFacts.
Import ListNotations RecordSetNotations.
Open Scope N_scope.

(* ---------- a tactic that walks through the definitions ---------- *)
Ltac break_match :=
  match goal with
  | |- context [match ?x with _ => _ end] =>
      match type of x with
      | sumbool _ _ => destruct x
      | _ => let E := fresh "E" in destruct x eqn:E
      end
  | |- context [if ?x then _ else _] => let E := fresh "E" in destruct x eqn:E
  end.

Ltac crush_ps := repeat (cbn [fst snd] in *; try reflexivity; try assumption; try break_match).

Lemma set_ps_twice c s1 s2 : c <| k_ps := s1 |> <| k_ps := s2 |> = c <| k_ps := s2 |>.
Proof. destruct c; reflexivity. Qed.
Lemma set_ps_same c : c <| k_ps := k_ps c |> = c.
Proof. destruct c; reflexivity. Qed.

(* application actions never raise inside run(): they either complete or abandon the loop *)
Lemma do_actions_status acts : forall c, snd (do_actions c acts) = SOk \/ snd (do_actions c acts) = SAbandon.
Proof.
  induction acts as [|a acts IH]; intros c; [left; reflexivity|].
  destruct a as [cl|w]; cbn [do_actions].
  - destruct (api_call c cl) as [c1 r]. apply IH.
  - right. reflexivity.
Qed.
Lemma deliver_status app c e : snd (deliver app c e) = SOk \/ snd (deliver app c e) = SAbandon.
Proof. unfold deliver. apply do_actions_status. Qed.

(* write() in terms of elementary updates (used by the instances that do not single out writes) *)
Section WriteFromEmit.
  Variable P : conn -> conn -> Prop.
  Hypothesis P_refl : forall c, P c c.
  Hypothesis P_trans : forall a b c, P a b -> P b c -> P a c.
  Variable ok_item : titem -> Prop.
  Hypothesis P_emit : forall c x, ok_item x -> P c (emit x c).
  Hypothesis ok_write : forall w, ok_item (TWrite w).
  Hypothesis ok_writefail : forall w, ok_item (TWriteFail w).
  Hypothesis P_wfaults : forall c x, P c (c <| k_wfaults := x |>).
  Hypothesis P_closing : forall c, P c (c <| k_closing := true |>).

  Lemma write_from_emit c d f : P c (fst (write c d f)).
  Proof.
    unfold write. destruct (negb (k_sock c)); [apply P_refl|]. destruct (k_closed c); [apply P_refl|].
    destruct (k_closing c); [apply P_refl|].
    set (c1 := if f then _ else c). assert (H1 : P c c1) by (unfold c1; destruct f; auto).
    unfold pop_wfault. destruct (k_wfaults c1) as [|w ws]; cbn [fst].
    - eapply P_trans; [exact H1|]. apply P_emit. apply ok_write.
    - destruct w; cbn [fst]; (eapply P_trans; [exact H1|]); (eapply P_trans; [apply P_wfaults|]); apply P_emit; auto.
  Qed.
  Hypothesis P_keys : forall c x, P c (c <| k_keys := x |>).
  Lemma send_from_emit c op r p : P c (fst (send_frame c op r p)).
  Proof.
    unfold send_frame, pop_key. destruct (k_keys c) as [|k ks]; [apply write_from_emit|].
    eapply P_trans; [apply P_keys|apply write_from_emit].
  Qed.
End WriteFromEmit.

(* closing the socket, from its two elementary updates (for relations that do not care in which order they happen) *)
Lemma close_socket_parts (P : conn -> conn -> Prop) :
  (forall c, P c c) -> (forall a b c, P a b -> P b c -> P a c) ->
  (forall c, P c (c <| k_sock := false |>)) -> (forall c, P c (emit TSockClose c)) -> forall c, P c (close_socket c).
Proof.
  intros R T S E c. unfold close_socket. destruct (k_sock c); [|apply R]. eapply T; [apply S|apply E].
Qed.

(* ---------- a generic "frame" argument ----------
   P is any preorder on connection states that every elementary field update of the model respects.
   Then every function of the model below the parser level (everything except on_item/feed/loop, which
   also replace the parser state) relates its input to its output by P. *)
Section Frame.
  Variable P : conn -> conn -> Prop.
  Hypothesis P_refl : forall c, P c c.
  Hypothesis P_trans : forall a b c, P a b -> P b c -> P a c.
  (* which trace items may be appended: the events are restricted per lemma *)
  Variable ok_item : titem -> Prop.
  Hypothesis P_emit : forall c x, ok_item x -> P c (emit x c).
  (* the one place where frames reach the socket; opcodes are 4-bit *)
  Hypothesis P_send : forall c op r p, op < 16 -> P c (fst (send_frame c op r p)).
  Hypothesis ok_call : forall r, ok_item (TCall r).
  Hypothesis ok_deflate : forall e i, ok_item (TDeflate e i).
  Hypothesis ok_inflate : forall e i, ok_item (TInflate e i).
  Hypothesis P_keys : forall c x, P c (c <| k_keys := x |>).
  Hypothesis P_wfaults : forall c x, P c (c <| k_wfaults := x |>).
  Hypothesis P_closing : forall c, P c (c <| k_closing := true |>).
  Hypothesis P_time : forall c x, P c (c <| k_sent_close_time := x |>).
  Hypothesis P_ctape : forall c x, P c (c <| k_ctape := x |>).
  Hypothesis P_zout : forall c f, P c (c <| k_zout ::= f |>).
  Hypothesis P_ztape : forall c x, P c (c <| k_ztape := x |>).
  Hypothesis P_zin : forall c f, P c (c <| k_zin ::= f |>).
  (* socket.close(): the flag and the trace item together, so that an instance may relate them *)
  Hypothesis P_close_socket : forall c, P c (close_socket c).
  Hypothesis P_done : forall c, P c (c <| k_closed := true |> <| k_closing := false |>).   (* handshake complete / on_disconnect *)
  Hypothesis P_with : forall c x, P c (c <| k_with := x |>).
  Hypothesis P_poll : forall c x, P c (c <| k_poll_start := x |>).
  Hypothesis P_nping : forall c x, P c (c <| k_next_ping := x |>).
  Hypothesis P_lpong : forall c x, P c (c <| k_last_pong := x |>).
  Hypothesis P_ready : forall c, P c (c <| k_last_pong := 0%Z |> <| k_next_ping := 0%Z |> <| k_start := Some (k_now c) |> <| k_ready := true |>).
  Hypothesis P_frames : forall c x, P c (c <| k_frames := x |>).

  Ltac tr := eapply P_trans.

  Lemma fr_emit x c : ok_item x -> P c (emit x c). Proof. apply P_emit. Qed.
  Lemma fr_pop_key c : P c (snd (pop_key c)).
  Proof. unfold pop_key. destruct (k_keys c); cbn [snd]; auto. Qed.
  Lemma fr_pop_wfault c : P c (snd (pop_wfault c)).
  Proof. unfold pop_wfault. destruct (k_wfaults c); cbn [snd]; auto. Qed.
  Lemma fr_send_frame c op r p : op < 16 -> P c (fst (send_frame c op r p)).
  Proof. apply P_send. Qed.
  Lemma fr_ws_close c code reason : P c (fst (ws_close c code reason)).
  Proof.
    unfold ws_close. destruct (k_closed c); [apply P_refl|]. destruct (k_closing c); [apply P_refl|].
    destruct (125 <? _); [apply P_refl|].
    pose proof (fr_send_frame c OP_CLOSE false (close_payload code reason) ltac:(reflexivity)) as H.
    destruct (send_frame _ _ _ _) as [c1 r]. cbn [fst] in *.
    tr; [exact H|]. tr; [apply P_closing|]. apply P_time.
  Qed.
  Lemma fr_send_data c op p z : op < 16 -> P c (fst (send_data c op p z)).
  Proof.
    intros Hop. unfold send_data. destruct (k_deflate c) as [d|]; [|apply fr_send_frame; exact Hop].
    destruct z; [|apply fr_send_frame; exact Hop].
    destruct (k_ctape c) as [|zz zs]; destruct (c_reset d);
      repeat (first [apply fr_send_frame; exact Hop | tr; [|apply fr_send_frame; exact Hop]]);
      repeat (first [apply P_refl | apply fr_emit; apply ok_deflate | apply P_zout | apply P_ctape | tr; [|apply P_zout] | tr; [|apply fr_emit; apply ok_deflate]]).
  Qed.
  Lemma fr_api_call c a : P c (fst (api_call c a)).
  Proof.
    destruct a; cbn [api_call]; try (apply fr_send_data; reflexivity); try apply fr_ws_close;
      destruct (125 <? _); try apply P_refl; apply fr_send_frame; reflexivity.
  Qed.
  Lemma fr_close_socket c : P c (close_socket c).
  Proof. apply P_close_socket. Qed.
  Lemma fr_on_disconnect c : P c (on_disconnect c).
  Proof. unfold on_disconnect. tr; [apply fr_close_socket|apply P_done]. Qed.
  Lemma fr_do_actions acts : forall c, P c (fst (do_actions c acts)).
  Proof.
    induction acts as [|a acts IH]; intros c; [apply P_refl|].
    destruct a as [cl|w]; cbn [do_actions].
    - pose proof (fr_api_call c cl) as H. destruct (api_call c cl) as [c1 r]. cbn [fst] in H.
      tr; [exact H|]. tr; [apply fr_emit; apply ok_call|apply IH].
    - apply P_with.
  Qed.

  Section WithCfg.
    Variable cf : cfg.
    Variable app : strategy.

    Lemma fr_deliver c e : ok_item (TEv e) -> P c (fst (deliver app c e)).
    Proof. intros He. unfold deliver. tr; [apply fr_emit; exact He|apply fr_do_actions]. Qed.

    Hypothesis ok_poll : ok_item (TEv EvPoll).
    Hypothesis ok_unresponsive : ok_item (TEv EvUnresponsive).

    Ltac fr_one :=
      match goal with
      | |- context [deliver ?a ?c ?e] =>
          let H := fresh "Hd" in
          assert (H : P c (fst (deliver a c e))) by (apply fr_deliver; first [exact ok_poll | exact ok_unresponsive]);
          destruct (deliver a c e) as [? ?]; cbn [fst snd] in H
      | |- context [send_frame ?c ?o ?r ?p] =>
          let H := fresh "Hs" in pose proof (fr_send_frame c o r p ltac:(reflexivity)) as H; destruct (send_frame c o r p) as [? ?]; cbn [fst snd] in H
      | |- context [if ?b then _ else _] =>
          lazymatch b with
          | context [match _ with _ => _ end] => fail
          | _ => destruct b
          end
      | |- context [match ?x with _ => _ end] =>
          lazymatch x with
          | context [match _ with _ => _ end] => fail
          | _ => destruct x
          end
      end.

    Ltac chain :=
      repeat match goal with
             | |- P ?a ?a => apply P_refl
             | H : P ?a ?b |- P ?a ?b => exact H
             | H : P ?a ?b |- P ?a ?c => apply (P_trans a b c H)
             | |- P ?a (?c <| k_poll_start := _ |>) => first [apply P_poll | eapply P_trans; [|apply P_poll]]
             | |- P ?a (?c <| k_next_ping := _ |>) => first [apply P_nping | eapply P_trans; [|apply P_nping]]
             end.

    Lemma fr_regular c : P c (fst (regular cf app c)).
    Proof.
      unfold regular. repeat fr_one; cbn [fst snd] in *;
        repeat match goal with
               | H : P (?x <| k_poll_start := ?v |>) ?y |- _ =>
                   let H' := fresh in assert (H' : P x y) by (eapply P_trans; [apply P_poll|exact H]); clear H
               | H : P (?x <| k_next_ping := ?v |>) ?y |- _ =>
                   let H' := fresh in assert (H' : P x y) by (eapply P_trans; [apply P_nping|exact H]); clear H
               end; chain.
    Qed.

    Lemma fr_on_event c e : P c (fst (on_event cf c e)).
    Proof.
      unfold on_event. destruct e; try apply P_refl.
      - cbn [fst]. apply P_ready.
      - destruct (c_auto_pong cf); [|apply P_refl].
        pose proof (fr_api_call c (CSendPong payload)) as H.
        destruct (api_call c (CSendPong payload)) as [c1 r]. cbn [fst] in H.
        destruct r as [x|]; [destruct x|]; exact H.
      - cbn [fst]. apply P_lpong.
    Qed.

    Lemma fr_in_feed_yield c e : ok_item (TEv e) -> P c (fst (in_feed_yield cf app c e)).
    Proof.
      intros He. unfold in_feed_yield.
      pose proof (fr_on_event c e) as H0. destruct (on_event cf c e) as [c0 st0]. cbn [fst] in H0.
      destruct st0; [|exact H0|exact H0].
      pose proof (fr_deliver c0 e He) as H1. destruct (deliver app c0 e) as [c1 st1]. cbn [fst] in H1.
      destruct st1; cbn [fst]; try (tr; [exact H0|exact H1]).
      tr; [exact H0|]. tr; [exact H1|]. apply fr_regular.
    Qed.

    Definition fr_post (post : conn -> conn * status) := forall c, P c (fst (post c)).

    Lemma fr_feed_yield c e post : ok_item (TEv e) -> fr_post post -> P c (fst (feed_yield cf app c e post)).
    Proof.
      intros He Hp. unfold feed_yield.
      pose proof (fr_in_feed_yield c e He) as H. destruct (in_feed_yield cf app c e) as [c1 st]. cbn [fst] in H.
      destruct st; cbn [fst]; (tr; [exact H|]); [apply Hp|apply fr_on_disconnect|apply fr_on_disconnect].
    Qed.
    Lemma fr_handler_yield c e post : ok_item (TEv e) -> fr_post post -> P c (fst (handler_yield cf app c e post)).
    Proof.
      intros He Hp. unfold handler_yield.
      pose proof (fr_in_feed_yield c e He) as H. destruct (in_feed_yield cf app c e) as [c1 st]. cbn [fst] in H.
      destruct st; cbn [fst]; try exact H. tr; [exact H|apply Hp].
    Qed.

    Lemma fr_raise_in_feed c e : (forall cr, ok_item (TEv (EvProtocolError cr))) ->
      P c (fst (raise_in_feed cf app c e)).
    Proof.
      intros He. destruct e; unfold raise_in_feed; (apply fr_handler_yield; [apply He|]); intros c1; cbn [fst]; [apply P_refl|apply fr_ws_close].
    Qed.

    Lemma fr_inflate c d parts : P c (fst (inflate c d parts)).
    Proof.
      unfold inflate. destruct (k_ztape (emit _ c)) as [|r rs]; cbn [fst].
      - apply fr_emit; apply ok_inflate.
      - destruct r as [[out ended]|]; [destruct ended; destruct (d_reset d)|]; cbn [fst];
          repeat (first [apply fr_emit; apply ok_inflate | apply P_ztape | apply P_zin | tr; [|apply P_zin] | tr; [|apply P_ztape]]).
    Qed.

    Lemma fr_build_message c frames : P c (fst (build_message c frames)).
    Proof.
      unfold build_message.
      set (first := hd _ frames).
      assert (H : forall x : conn * option bytes,
                 x = match f_rsv1 first, k_deflate c with
                     | true, Some d => inflate c d (map f_payload frames)
                     | _, _ => (c, Some (concat (map f_payload frames))) end -> P c (fst x)).
      { intros x ->. destruct (f_rsv1 first); [|apply P_refl]. destruct (k_deflate c); [apply fr_inflate|apply P_refl]. }
      destruct (match f_rsv1 first, k_deflate c with | true, Some d => _ | _, _ => _ end) as [c1 payload] eqn:E.
      specialize (H (c1, payload) eq_refl). cbn [fst] in H.
      destruct payload as [p|]; [|exact H].
      repeat (match goal with |- context [if ?b then _ else _] => destruct b end; try exact H).
      destruct p as [|a [|b reason]]; try exact H.
      destruct (utf8_validb reason); exact H.
    Qed.

    Ltac fy_step c0 tac :=
      match goal with
      | |- context [feed_yield cf app c0 ?e ?post] =>
          let H := fresh "H" in
          assert (H : fr_post post) by (intros ?; cbn [fst]; tac);
          pose proof (fr_feed_yield c0 e post ltac:(auto) H);
          destruct (feed_yield cf app c0 e post) as [? ?]; assumption
      end.

    (* the events a message can produce *)
    Hypothesis ok_msg_events : forall e,
      match e with
      | EvText _ | EvBinary _ | EvPing _ | EvPong _ | EvClosing _ _ | EvClosed _ _ | EvProtocolError _ => ok_item (TEv e)
      | _ => True
      end.

    Lemma fr_on_message c m : P c (fst (fst (on_message cf app c m))).
    Proof.
      pose proof (fun p => ok_msg_events (EvText p)) as O1. pose proof (fun p => ok_msg_events (EvBinary p)) as O2.
      pose proof (fun p => ok_msg_events (EvPing p)) as O3. pose proof (fun p => ok_msg_events (EvPong p)) as O4.
      pose proof (fun a b => ok_msg_events (EvClosing a b)) as O5. pose proof (fun a b => ok_msg_events (EvClosed a b)) as O6.
      pose proof (fun a => ok_msg_events (EvProtocolError a)) as O7. cbn in O1, O2, O3, O4, O5, O6, O7.
      destruct m; unfold on_message.
      - fy_step c ltac:(apply P_refl).
      - fy_step c ltac:(apply P_refl).
      - fy_step c ltac:(apply P_refl).
      - fy_step c ltac:(apply P_refl).
      - destruct (match code with Some n => invalid_close_code n | None => false end).
        + pose proof (fr_raise_in_feed c MProtocol O7) as H. destruct (raise_in_feed cf app c MProtocol). exact H.
        + destruct (k_closed c); [apply P_refl|]. destruct (k_closing c).
          * fy_step c ltac:(apply P_done).
          * fy_step c ltac:(tr; [apply fr_ws_close|apply P_closing]).
      - apply P_refl.
    Qed.

    Lemma fr_stream_frame c f :
      match stream_frame c f with
      | SNone c1 | SMsg c1 _ => P c c1
      | SErr => True
      end.
    Proof.
      unfold stream_frame. destruct (is_control (f_op f)); [apply P_refl|].
      destruct (k_frames c); destruct (f_op f =? OP_CONT); cbn [negb]; try exact I; destruct (f_fin f);
        first [apply P_refl | apply P_frames].
    Qed.

    (* one frame through WebsocketStream.feed, Message.build and the dispatch of WebSocket.feed *)
    Lemma fr_on_item_frame c f : P c (fst (fst (on_item cf app c (IFrame f)))).
    Proof.
      pose proof (fun a => ok_msg_events (EvProtocolError a)) as O7. cbn in O7.
      unfold on_item. pose proof (fr_stream_frame c f) as Hs0.
      destruct (stream_frame c f) as [c1|c1 frames|].
      - exact Hs0.
      - pose proof (fr_build_message c1 frames) as Hb. destruct (build_message c1 frames) as [c2 r]. cbn [fst] in Hb.
        destruct r as [m|e].
        + tr; [exact Hs0|]. tr; [exact Hb|apply fr_on_message].
        + pose proof (fr_raise_in_feed c2 e O7) as Hr. destruct (raise_in_feed cf app c2 e) as [c3 st]. cbn [fst] in *.
          tr; [exact Hs0|]. tr; [exact Hb|exact Hr].
      - pose proof (fr_raise_in_feed c MProtocol O7) as Hr. destruct (raise_in_feed cf app c MProtocol) as [c3 st]. exact Hr.
    Qed.
  End WithCfg.
End Frame.

(* ---------- instance: the parser state is untouched ---------- *)
Definition same_ps (c c' : conn) : Prop := k_ps c' = k_ps c.
Ltac inst_frame L := first [eapply L with (P := same_ps) (ok_item := fun _ => True) | eapply L with (P := same_ps)];
                       try (intros; apply send_from_emit with (ok_item := fun _ => True));
                       try (intros c0; unfold close_socket; destruct (k_sock c0); reflexivity);
                       try (intros; reflexivity); try (unfold same_ps; intros; congruence); try (intros; exact I);
                       try (intros e0; destruct e0; exact I).

Section WithCfg.
  Variable cf : cfg.
  Variable app : strategy.

  Lemma ps_on_disconnect c : k_ps (on_disconnect c) = k_ps c.
  Proof. change (same_ps c (on_disconnect c)). inst_frame fr_on_disconnect. Qed.
  Lemma ps_feed_yield c e post : (forall c, k_ps (fst (post c)) = k_ps c) -> k_ps (fst (feed_yield cf app c e post)) = k_ps c.
  Proof. intros H. change (same_ps c (fst (feed_yield cf app c e post))). inst_frame fr_feed_yield; try exact H; try (intros c0; unfold same_ps; apply H). Qed.
  Lemma ps_raise_in_feed c e : k_ps (fst (raise_in_feed cf app c e)) = k_ps c.
  Proof. change (same_ps c (fst (raise_in_feed cf app c e))). inst_frame fr_raise_in_feed. Qed.
  Lemma ps_build_message c frames : k_ps (fst (build_message c frames)) = k_ps c.
  Proof. change (same_ps c (fst (build_message c frames))). inst_frame fr_build_message. Qed.
  Lemma ps_on_message c m : k_ps (fst (fst (on_message cf app c m))) = k_ps c.
  Proof. change (same_ps c (fst (fst (on_message cf app c m)))). inst_frame fr_on_message. Qed.
  Lemma ps_stream_frame c f :
    match stream_frame c f with
    | SNone c1 | SMsg c1 _ => k_ps c1 = k_ps c
    | SErr => True
    end.
  Proof.
    pose proof (fr_stream_frame same_ps) as H. unfold same_ps in H. apply H; intros; reflexivity.
  Qed.

  (* on_item: the parser state is unchanged, except that Ready may switch compression on *)
  Lemma ps_on_item c x :
    let c' := fst (fst (on_item cf app c x)) in
    k_ps c' = k_ps c \/ k_ps c' = fp_enable_compression (k_ps c).
  Proof.
    cbv zeta. unfold on_item. destruct x as [data|f].
    - destruct (on_response (c_accept cf) (parse_response data)) as [proto d|].
      + destruct d as [dc|].
        * right.
          match goal with |- context [feed_yield cf app ?c0 ?e ?post] =>
            pose proof (ps_feed_yield c0 e post ltac:(intros ?; reflexivity)) as H;
            destruct (feed_yield cf app c0 e post) as [c2 st]; cbn [fst] in *; rewrite H; reflexivity end.
        * left.
          match goal with |- context [feed_yield cf app ?c0 ?e ?post] =>
            pose proof (ps_feed_yield c0 e post ltac:(intros ?; reflexivity)) as H;
            destruct (feed_yield cf app c0 e post) as [c2 st]; cbn [fst] in *; exact H end.
      + left.
        match goal with |- context [feed_yield cf app ?c0 ?e ?post] =>
            pose proof (ps_feed_yield c0 e post ltac:(intros ?; reflexivity)) as H;
            destruct (feed_yield cf app c0 e post) as [c2 st]; cbn [fst] in *; rewrite H; apply ps_on_disconnect end.
    - left. pose proof (ps_stream_frame c f) as Hs. destruct (stream_frame c f) as [c1|c1 frames|].
      + exact Hs.
      + pose proof (ps_build_message c1 frames) as Hb. destruct (build_message c1 frames) as [c2 r]. cbn [fst] in Hb.
        destruct r as [m|e].
        * rewrite ps_on_message. congruence.
        * pose proof (ps_raise_in_feed c2 e) as Hr. destruct (raise_in_feed cf app c2 e) as [c3 st]. cbn [fst] in *. congruence.
      + pose proof (ps_raise_in_feed c MProtocol) as Hr. destruct (raise_in_feed cf app c MProtocol) as [c3 st]. exact Hr.
  Qed.

  (* once closed, always closed *)
  Definition closed_mono (c c' : conn) : Prop := k_closed c = true -> k_closed c' = true.
  Ltac inst_mono L := first [eapply L with (P := closed_mono) (ok_item := fun _ => True) | eapply L with (P := closed_mono)];
                      try (intros; apply send_from_emit with (ok_item := fun _ => True)); try (intros c0; unfold closed_mono, close_socket; destruct (k_sock c0); cbn; auto; fail); try (unfold closed_mono; intros; cbn; auto; fail); try (unfold closed_mono; intros; eauto);
                      try (intros; exact I).

  Lemma closed_feed_yield c e post : (forall c, closed_mono c (fst (post c))) -> closed_mono c (fst (feed_yield cf app c e post)).
  Proof. intros H. inst_mono fr_feed_yield. Qed.
  Lemma closed_on_disconnect c : k_closed (on_disconnect c) = true.
  Proof. reflexivity. Qed.

  Lemma raise_in_feed_not_ok c e : snd (raise_in_feed cf app c e) <> SOk.
  Proof.
    destruct e; unfold raise_in_feed, handler_yield;
      destruct (in_feed_yield cf app c _) as [c1 st]; destruct st; cbn [snd]; discriminate.
  Qed.

  Lemma closed_set_ps c s : k_closed (c <| k_ps := s |>) = k_closed c.
  Proof. reflexivity. Qed.

  (* one unfolding of feed *)
  Definition feed_body (k : conn -> bytes -> conn * status) (c : conn) (d : bytes) : conn * status :=
    if k_closed c then (c, SOk) else
    match fp_pull (k_ps c) d with
    | NeedMore s => (c <| k_ps := s |>, SOk)
    | Err e => raise_in_feed cf app (c <| k_ps := fp_init |>) (perr_to_merr e)
    | Item x s rest =>
        let '(c1, st, fs) := on_item cf app (c <| k_ps := s |>) x in
        match st, fs with
        | SOk, FContinue => k c1 rest
        | _, _ => (c1, st)
        end
    end.

  Lemma feed_S f c d : feed cf app (S f) c d = feed_body (feed cf app f) c d.
  Proof. reflexivity. Qed.

  Lemma on_item_ok c x : fp_ok (k_ps c) -> fp_ok (k_ps (fst (fst (on_item cf app c x)))).
  Proof.
    intros H. destruct (ps_on_item c x) as [E|E]; rewrite E; [exact H|apply fp_enable_compression_ok; exact H].
  Qed.

  Lemma feed_fuel f1 : forall f2 c d, fp_ok (k_ps c) -> (length d < f1)%nat -> (length d < f2)%nat ->
    feed cf app f1 c d = feed cf app f2 c d.
  Proof.
    induction f1 as [|f1 IH]; intros f2 c d Hc L1 L2; [lia|].
    destruct f2 as [|f2]; [lia|]. rewrite !feed_S. unfold feed_body.
    destruct (k_closed c); [reflexivity|].
    pose proof (fp_pull_ok (k_ps c) d Hc) as Hp.
    destruct (fp_pull (k_ps c) d) as [x s rest|s|e]; try reflexivity.
    destruct Hp as [Hs Hl].
    pose proof (on_item_ok (c <| k_ps := s |>) x Hs) as Ho.
    destruct (on_item cf app (c <| k_ps := s |>) x) as [[c1 st] fs]. cbn [fst] in Ho.
    destruct st; try reflexivity. destruct fs; try reflexivity.
    apply IH; auto; lia.
  Qed.

  Lemma feedf_unfold c d : fp_ok (k_ps c) -> feedf cf app c d = feed_body (feedf cf app) c d.
  Proof.
    intros Hc. unfold feedf at 1. rewrite feed_S. unfold feed_body.
    destruct (k_closed c); [reflexivity|].
    pose proof (fp_pull_ok (k_ps c) d Hc) as Hp.
    destruct (fp_pull (k_ps c) d) as [x s rest|s|e]; try reflexivity.
    destruct Hp as [Hs Hl].
    pose proof (on_item_ok (c <| k_ps := s |>) x Hs) as Ho.
    destruct (on_item cf app (c <| k_ps := s |>) x) as [[c1 st] fs]. cbn [fst] in Ho.
    destruct st; try reflexivity. destruct fs; try reflexivity.
    unfold feedf. apply feed_fuel; auto; lia.
  Qed.

  (* the loop over the stream is left with status SOk only after Rejected, and then the websocket is closed *)
  Lemma on_item_break c x c1 : on_item cf app c x = (c1, SOk, FBreak) -> k_closed c1 = true.
  Proof.
    unfold on_item. destruct x as [data|f].
    - destruct (on_response (c_accept cf) (parse_response data)) as [proto d|].
      + destruct (feed_yield cf app _ _ _) as [c2 st]. intros H; inversion H.
      + match goal with |- context [feed_yield cf app ?c0 ?e ?post] =>
          pose proof (closed_feed_yield c0 e post ltac:(intros ? ?; assumption)) as Hm;
          destruct (feed_yield cf app c0 e post) as [c2 st] end.
        intros H; inversion H; subst. apply Hm. apply closed_on_disconnect.
    - destruct (stream_frame c f) as [c2|c2 frames|].
      + intros H; inversion H.
      + destruct (build_message c2 frames) as [c3 r]. destruct r as [m|e].
        * destruct m; unfold on_message;
            repeat match goal with
                   | |- context [feed_yield cf app ?c0 ?e ?post] => destruct (feed_yield cf app c0 e post) as [? ?]
                   | |- context [raise_in_feed cf app ?c0 ?e] =>
                       pose proof (raise_in_feed_not_ok c0 e); destruct (raise_in_feed cf app c0 e) as [? ?]
                   | |- context [if ?b then _ else _] => destruct b
                   end; intros Heq; inversion Heq; subst; cbn [snd] in *; congruence.
        * pose proof (raise_in_feed_not_ok c3 e). destruct (raise_in_feed cf app c3 e) as [? ?].
          intros H'; inversion H'; subst; cbn [snd] in *; congruence.
      + pose proof (raise_in_feed_not_ok c MProtocol). destruct (raise_in_feed cf app c MProtocol) as [? ?].
        intros H'; inversion H'; subst; cbn [snd] in *; congruence.
  Qed.

  (* feeding a ++ b in one call = feeding a, then (if nothing stopped the loop) b *)
  Definition then_feed (r : conn * status) (b : bytes) : conn * status :=
    match snd r with SOk => feedf cf app (fst r) b | _ => r end.

  Lemma feedf_ok c d : fp_ok (k_ps c) -> fp_ok (k_ps (fst (feedf cf app c d))) \/ snd (feedf cf app c d) <> SOk.
  Proof.
    remember (length d) as n eqn:En. revert c d En.
    induction n as [n IH] using lt_wf_ind. intros c d En Hc. subst n.
    rewrite feedf_unfold by exact Hc. unfold feed_body.
    destruct (k_closed c); [left; exact Hc|].
    pose proof (fp_pull_ok (k_ps c) d Hc) as Hp.
    destruct (fp_pull (k_ps c) d) as [x s rest|s|e].
    - destruct Hp as [Hs Hl].
      pose proof (on_item_ok (c <| k_ps := s |>) x Hs) as Ho.
      destruct (on_item cf app (c <| k_ps := s |>) x) as [[c1 st] fs]. cbn [fst] in Ho.
      destruct st; [|right; cbn [snd]; discriminate|right; cbn [snd]; discriminate].
      destruct fs; [|left; exact Ho].
      apply (IH (length rest)); auto.
    - left. exact Hp.
    - right. apply raise_in_feed_not_ok.
  Qed.

  Theorem feed_split n : forall a b c, (length a <= n)%nat -> fp_ok (k_ps c) ->
    feedf cf app c (a ++ b) = then_feed (feedf cf app c a) b.
  Proof.
    induction n as [n IH] using lt_wf_ind. intros a b c La Hc.
    rewrite (feedf_unfold c (a ++ b)), (feedf_unfold c a) by exact Hc.
    unfold feed_body. destruct (k_closed c) eqn:Ecl.
    { unfold then_feed. cbn [fst snd]. rewrite feedf_unfold by exact Hc. unfold feed_body. rewrite Ecl. reflexivity. }
    rewrite fp_pull_split by exact Hc.
    pose proof (fp_pull_ok (k_ps c) a Hc) as Hp.
    destruct (fp_pull (k_ps c) a) as [x s rest|s|e]; cbn [out_app].
    - destruct Hp as [Hs Hl].
      pose proof (on_item_ok (c <| k_ps := s |>) x Hs) as Ho.
      destruct (on_item cf app (c <| k_ps := s |>) x) as [[c1 st] fs] eqn:Eoi. cbn [fst] in Ho.
      destruct st; try reflexivity.
      destruct fs.
      + apply (IH (length rest)); auto; lia.
      + (* break with SOk: only the Rejected branch; the websocket is closed, so b is ignored either way *)
        unfold then_feed. cbn [fst snd].
        rewrite (feedf_unfold c1 b) by exact Ho. unfold feed_body.
        rewrite (on_item_break _ _ _ Eoi). reflexivity.
    - (* a exhausted inside an item: continue with b from the parked state *)
      unfold then_feed. cbn [fst snd].
      rewrite (feedf_unfold (c <| k_ps := s |>) b) by exact Hp.
      unfold feed_body. rewrite closed_set_ps, Ecl. cbn [k_ps]. 
      replace (k_ps (c <| k_ps := s |>)) with s by reflexivity.
      destruct (fp_pull s b) as [x2 s2 rest2|s2|e2].
      + rewrite set_ps_twice. reflexivity.
      + rewrite set_ps_twice. reflexivity.
      + rewrite set_ps_twice. reflexivity.
    - unfold then_feed.
      pose proof (raise_in_feed_not_ok (c <| k_ps := fp_init |>) (perr_to_merr e)) as Hr.
      destruct (raise_in_feed cf app (c <| k_ps := fp_init |>) (perr_to_merr e)) as [c1 st]. cbn [fst snd] in *.
      destruct st; [congruence|reflexivity|reflexivity].
  Qed.

  (* what the session does with the successive reads of one connection (timers aside) *)
  Fixpoint feed_chunks (c : conn) (ds : list bytes) : conn * status :=
    match ds with
    | [] => (c, SOk)
    | d :: rest => let r := feedf cf app c d in
                   match snd r with SOk => feed_chunks (fst r) rest | _ => r end
    end.

  Theorem feed_chunks_concat ds : forall c, fp_ok (k_ps c) -> feed_chunks c ds = feedf cf app c (concat ds).
  Proof.
    induction ds as [|d rest IH]; intros c Hc.
    - cbn [feed_chunks concat]. rewrite feedf_unfold by exact Hc. unfold feed_body.
      destruct (k_closed c); [reflexivity|].
      assert (En : fp_pull (k_ps c) [] = NeedMore (k_ps c)) by reflexivity.
      rewrite En. rewrite set_ps_same. reflexivity.
    - cbn [feed_chunks concat]. rewrite (feed_split (length d) d (concat rest) c (le_n _) Hc).
      unfold then_feed. destruct (feedf_ok c d Hc) as [Hok|Hbad].
      + destruct (snd (feedf cf app c d)); try reflexivity. apply IH. exact Hok.
      + destruct (snd (feedf cf app c d)); [congruence|reflexivity|reflexivity].
  Qed.

  Corollary segmentation_independent ds ds' c : fp_ok (k_ps c) -> concat ds = concat ds' ->
    feed_chunks c ds = feed_chunks c ds'.
  Proof. intros Hc E. rewrite !feed_chunks_concat by exact Hc. rewrite E. reflexivity. Qed.
End WithCfg.
