(* C06, "for every negotiated configuration": the Sec-WebSocket-Extensions value a server renders for a permessage-deflate
   configuration -- each window size absent or 8..15, each no_context_takeover flag absent or present, parameters in
   any of the 24 orders, optional blanks around ';' and '=', window sizes optionally quoted -- is read back by
   parse_extension / Deflate.from_options as exactly that configuration (absent window = 15), also through the reply
   parser and on_response.  The domain is finite, so the statement is decided by evaluation and lifted to a theorem. *)
From Coq Require Import String.
From Coq Require Import List NArith Bool Lia.
From Coq.Strings Require Import Byte.
From Model Require Import Bytes Response Handshake.
Import ListNotations.
Open Scope N_scope.

Inductive param := PSwb (n : N) | PCwb (n : N) | PSnct | PCnct.

Definition render_param (quoted spaced : bool) (p : param) : bytes :=
  let eq := if spaced then str " = "%string else str "="%string in
  let q v := if quoted then x22 :: v ++ [x22] else v in
  match p with
  | PSwb n => str "server_max_window_bits"%string ++ eq ++ q (decimal n)
  | PCwb n => str "client_max_window_bits"%string ++ eq ++ q (decimal n)
  | PSnct => str "server_no_context_takeover"%string
  | PCnct => str "client_no_context_takeover"%string
  end.

Definition render_ext (quoted spaced : bool) (ps : list param) : bytes :=
  let sep := if spaced then str " ; "%string else str "; "%string in
  str "permessage-deflate"%string ++ concat (map (fun p => sep ++ render_param quoted spaced p) ps).

Definition cfg_of (ps : list param) : deflate_cfg :=
  {| d_wbits := fold_left (fun a p => match p with PSwb n => n | _ => a end) ps 15;
     c_wbits := fold_left (fun a p => match p with PCwb n => n | _ => a end) ps 15;
     d_reset := existsb (fun p => match p with PSnct => true | _ => false end) ps;
     c_reset := existsb (fun p => match p with PCnct => true | _ => false end) ps |}.

Definition cfg_eqb (a b : deflate_cfg) : bool :=
  (d_wbits a =? d_wbits b) && (c_wbits a =? c_wbits b) && Bool.eqb (d_reset a) (d_reset b) && Bool.eqb (c_reset a) (c_reset b).
Lemma cfg_eqb_eq a b : cfg_eqb a b = true -> a = b.
Proof.
  unfold cfg_eqb. intros H. repeat (apply andb_true_iff in H as [H ?]).
  destruct a, b; cbn in *. apply N.eqb_eq in H. apply N.eqb_eq in H2.
  apply Bool.eqb_prop in H1. apply Bool.eqb_prop in H0. congruence.
Qed.

(* the finite domain *)
Definition wbits_dom : list N := [8; 9; 10; 11; 12; 13; 14; 15].
Definition opt_params (mk : N -> param) : list (list param) := [] :: map (fun n => [mk n]) wbits_dom.
Definition flag_params (p : param) : list (list param) := [[]; [p]].

Fixpoint insert_all (x : param) (l : list param) : list (list param) :=
  match l with
  | [] => [[x]]
  | y :: t => (x :: l) :: map (cons y) (insert_all x t)
  end.
Fixpoint perms (l : list param) : list (list param) :=
  match l with
  | [] => [[]]
  | x :: t => flat_map (insert_all x) (perms t)
  end.

Definition all_param_sets : list (list param) :=
  flat_map (fun a => flat_map (fun b => flat_map (fun c => map (fun d => a ++ b ++ c ++ d) (flag_params PCnct))
                                                 (flag_params PSnct)) (opt_params PCwb)) (opt_params PSwb).
(* every order of the parameters in the plain spelling; quotes and extra blanks in the canonical order *)
Definition all_renderings : list (bool * bool * list param) :=
  flat_map (fun ps => map (fun o => (false, false, o)) (perms ps) ++ [(true, false, ps); (false, true, ps); (true, true, ps)])
           all_param_sets.

Definition reads_back (x : bool * bool * list param) : bool :=
  let '(quoted, spaced, ps) := x in
  match process_extensions [render_ext quoted spaced ps] None with
  | Some (Some d) => cfg_eqb d (cfg_of ps)
  | _ => false
  end.

Definition reply_for (ext : bytes) : bytes :=
  str "HTTP/1.1 101 Switching Protocols"%string ++ CRLF ++ str "Upgrade: websocket"%string ++ CRLF ++
  str "Sec-WebSocket-Accept: s3pPLMBiTxaQ9kYGzzhZRbK+xOo="%string ++ CRLF ++
  str "Sec-WebSocket-Extensions: "%string ++ ext ++ CRLFCRLF.
Definition ready_with (x : bool * bool * list param) : bool :=
  let '(quoted, spaced, ps) := x in
  match on_response (str "s3pPLMBiTxaQ9kYGzzhZRbK+xOo="%string) (parse_response (reply_for (render_ext quoted spaced ps))) with
  | HReady None (Some d) => cfg_eqb d (cfg_of ps)
  | _ => false
  end.

Lemma sweep_reads_back : forallb reads_back all_renderings = true.
Proof. vm_compute. reflexivity. Qed.
Definition canonical_renderings : list (bool * bool * list param) := map (fun ps => (false, false, ps)) all_param_sets.
Lemma sweep_ready_with : forallb ready_with canonical_renderings = true.
Proof. vm_compute. reflexivity. Qed.

Lemma all_renderings_count : length all_param_sets = 324%nat /\ length all_renderings = 3585%nat.
Proof. vm_compute. split; reflexivity. Qed.

(* membership in the domain, stated without the enumeration *)
Definition in_domain (ps : list param) : Prop := exists base, In base all_param_sets /\ In ps (perms base).

Theorem negotiation_roundtrip ps : in_domain ps ->
  process_extensions [render_ext false false ps] None = Some (Some (cfg_of ps)).
Proof.
  intros (base & Hb & Hp). pose proof sweep_reads_back as S. rewrite forallb_forall in S.
  assert (I : In (false, false, ps) all_renderings).
  { unfold all_renderings. apply in_flat_map. exists base. split; [exact Hb|]. apply in_or_app. left.
    apply in_map_iff. exists ps. split; [reflexivity|exact Hp]. }
  specialize (S _ I). unfold reads_back in S.
  destruct (process_extensions _ None) as [[d|]|]; try discriminate. apply cfg_eqb_eq in S. congruence.
Qed.

(* quoted window sizes and blanks around ';' and '=' do not change the reading *)
Theorem negotiation_roundtrip_spelling quoted spaced ps : In ps all_param_sets ->
  process_extensions [render_ext quoted spaced ps] None = Some (Some (cfg_of ps)).
Proof.
  intros Hb. pose proof sweep_reads_back as S. rewrite forallb_forall in S.
  assert (I : In (quoted, spaced, ps) all_renderings).
  { unfold all_renderings. apply in_flat_map. exists ps. split; [exact Hb|]. apply in_or_app.
    destruct quoted, spaced; [right; cbn; auto 10|right; cbn; auto 10|right; cbn; auto 10|].
    left. apply in_map_iff. exists ps. split; [reflexivity|].
    clear. induction ps as [|x t IH]; [left; reflexivity|]. cbn [perms]. apply in_flat_map. exists t. split; [exact IH|].
    destruct t; left; reflexivity. }
  specialize (S _ I). unfold reads_back in S.
  destruct (process_extensions _ None) as [[d|]|]; try discriminate. apply cfg_eqb_eq in S. congruence.
Qed.

(* ... and through the reply parser and the handshake decision: Ready with exactly this configuration *)
Theorem negotiation_ready ps : In ps all_param_sets ->
  on_response (str "s3pPLMBiTxaQ9kYGzzhZRbK+xOo="%string) (parse_response (reply_for (render_ext false false ps)))
  = HReady None (Some (cfg_of ps)).
Proof.
  intros H. pose proof sweep_ready_with as S. rewrite forallb_forall in S.
  assert (I : In (false, false, ps) canonical_renderings) by (apply in_map_iff; exists ps; split; [reflexivity|exact H]).
  specialize (S _ I). unfold ready_with in S.
  destruct (on_response _ _) as [[p|] [d|]|]; try discriminate. apply cfg_eqb_eq in S. congruence.
Qed.

(* the enumeration is what the statement says: each window size absent or 8..15, each flag absent or present *)
Theorem all_param_sets_spec swb cwb (snct cnct : bool) :
  (match swb with Some n => 8 <= n <= 15 | None => True end) ->
  (match cwb with Some n => 8 <= n <= 15 | None => True end) ->
  In ((match swb with Some n => [PSwb n] | None => [] end) ++ (match cwb with Some n => [PCwb n] | None => [] end) ++
      (if snct then [PSnct] else []) ++ (if cnct then [PCnct] else [])) all_param_sets.
Proof.
  intros Hs Hc.
  assert (W : forall n, 8 <= n <= 15 -> In n wbits_dom).
  { intros n Hn. unfold wbits_dom. cbn. lia. }
  unfold all_param_sets. apply in_flat_map.
  exists (match swb with Some n => [PSwb n] | None => [] end). split.
  { unfold opt_params. destruct swb as [n|]; [right; apply in_map_iff; exists n; split; [reflexivity|apply W; exact Hs]|left; reflexivity]. }
  apply in_flat_map. exists (match cwb with Some n => [PCwb n] | None => [] end). split.
  { unfold opt_params. destruct cwb as [n|]; [right; apply in_map_iff; exists n; split; [reflexivity|apply W; exact Hc]|left; reflexivity]. }
  apply in_flat_map. exists (if snct then [PSnct] else []). split; [destruct snct; cbn; auto|].
  apply in_map_iff. exists (if cnct then [PCnct] else []). split; [reflexivity|destruct cnct; cbn; auto].
Qed.

(* the domain contains what the statement says: any choice of the four parameters, in any order *)
Ltac in_list := cbn; repeat (first [left; reflexivity | right]).
Lemma domain_example_1 : in_domain [PCnct; PSwb 9; PSnct; PCwb 12].
Proof.
  exists [PSwb 9; PCwb 12; PSnct; PCnct]. split.
  - apply (all_param_sets_spec (Some 9) (Some 12) true true); lia.
  - in_list.
Qed.
Lemma domain_example_2 : in_domain [].
Proof. exists []. split; [apply (all_param_sets_spec None None false false); exact I|in_list]. Qed.
Lemma domain_example_3 : in_domain [PCwb 8].
Proof. exists [PCwb 8]. split; [apply (all_param_sets_spec None (Some 8) false false); [exact I|lia]|in_list]. Qed.

(* out-of-range or non-numeric window sizes are refused: no configuration, the upgrade is rejected *)
Example refused_values :
  process_extensions [str "permessage-deflate; server_max_window_bits=7"%string] None = None /\
  process_extensions [str "permessage-deflate; client_max_window_bits=16"%string] None = None /\
  process_extensions [str "permessage-deflate; client_max_window_bits=x"%string] None = None /\
  process_extensions [str "permessage-deflate; server_max_window_bits="%string] None = None.
Proof. vm_compute. repeat split; reflexivity. Qed.
