(* (T1) The table obtained by EXECUTING WebSocket.process_extensions -> parse_extension -> Deflate.from_options of the
   code in /repo on every permessage-deflate configuration (and on window sizes that must be refused) equals the model's
   reading; with NegotiationFacts this gives: the RUNNING code reads every configuration of the finite domain back as
   exactly that configuration. *)
From Coq Require Import String.
From Coq Require Import List NArith Bool Lia.
From Coq.Strings Require Import Byte.
From Model Require Import Bytes Response.
From Proofs Require Import BytesFacts NegotiationFacts.
From Gen Require Import GenNegotiation.
Import ListNotations.
Open Scope N_scope.

Definition tuple_of (d : deflate_cfg) : N * N * bool * bool := (d_wbits d, c_wbits d, d_reset d, c_reset d).
Definition tuple_eqb (a b : N * N * bool * bool) : bool :=
  let '(a1, a2, a3, a4) := a in let '(b1, b2, b3, b4) := b in
  (a1 =? b1) && (a2 =? b2) && Bool.eqb a3 b3 && Bool.eqb a4 b4.
Lemma tuple_eqb_eq a b : tuple_eqb a b = true -> a = b.
Proof.
  destruct a as [[[a1 a2] a3] a4], b as [[[b1 b2] b3] b4]. cbn. intros H.
  repeat (apply andb_true_iff in H as [H ?]). apply N.eqb_eq in H. apply N.eqb_eq in H2.
  apply Bool.eqb_prop in H1. apply Bool.eqb_prop in H0. congruence.
Qed.

Definition model_reading (s : string) : option (option (N * N * bool * bool)) :=
  match process_extensions [str s] None with
  | None => None
  | Some None => Some None
  | Some (Some d) => Some (Some (tuple_of d))
  end.
Definition reading_eqb (a b : option (option (N * N * bool * bool))) : bool :=
  match a, b with
  | None, None => true
  | Some None, Some None => true
  | Some (Some x), Some (Some y) => tuple_eqb x y
  | _, _ => false
  end.

(* every row of the regenerated table: the model reads the value as the code does *)
Lemma table_agrees : forallb (fun row => reading_eqb (model_reading (fst row)) (snd row)) impl_negotiation = true.
Proof. vm_compute. reflexivity. Qed.

(* the first rows of the table are the renderings of the whole domain, in order *)
Definition domain_rows : list (string * option (option (N * N * bool * bool))) := firstn impl_negotiation_domain impl_negotiation.
Lemma table_covers_domain :
  forallb (fun p => bytes_eqb (str (fst (snd p))) (let '(q, sp, ps) := fst p in render_ext q sp ps) &&
                    reading_eqb (snd (snd p)) (let '(q, sp, ps) := fst p in Some (Some (tuple_of (cfg_of ps)))))
          (combine all_renderings domain_rows) = true
  /\ length domain_rows = length all_renderings.
Proof. vm_compute. split; reflexivity. Qed.

Lemma in_combine_left {A B} (l : list A) (l' : list B) a : length l = length l' -> In a l -> exists b, In (a, b) (combine l l').
Proof.
  revert l'; induction l as [|x l IH]; intros [|y l'] L H; cbn in *; try lia; try contradiction.
  destruct H as [->|H]; [exists y; left; reflexivity|].
  destruct (IH l' ltac:(lia) H) as (b & Hb). exists b. right. exact Hb.
Qed.

Lemma in_firstn {A} n (l : list A) x : In x (firstn n l) -> In x l.
Proof. revert l; induction n as [|n IH]; intros [|y l] H; cbn in *; try contradiction. destruct H as [H|H]; [left; exact H|right; apply IH; exact H]. Qed.

(* the running code's reading of every configuration of the domain, in every rendering of NegotiationFacts *)
Theorem impl_reads_every_configuration quoted spaced ps : In (quoted, spaced, ps) all_renderings ->
  exists s, In (s, Some (Some (tuple_of (cfg_of ps)))) impl_negotiation /\ str s = render_ext quoted spaced ps.
Proof.
  intros H. destruct table_covers_domain as [T L]. rewrite forallb_forall in T.
  destruct (in_combine_left all_renderings domain_rows _ (eq_sym L) H) as ([s r] & Hb).
  specialize (T _ Hb). cbn [fst snd] in T. apply andb_true_iff in T as [T1 T2].
  apply bytes_eqb_eq in T1.
  exists s. split; [|exact T1].
  assert (Hr : r = Some (Some (tuple_of (cfg_of ps)))).
  { clear Hb T1. unfold reading_eqb in T2. destruct r as [[x|]|]; [|discriminate T2|discriminate T2].
    apply tuple_eqb_eq in T2. rewrite T2. reflexivity. }
  subst r. apply in_combine_r in Hb. unfold domain_rows in Hb. eapply in_firstn; exact Hb.
Qed.
