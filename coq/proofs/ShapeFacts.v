(* The shape of the event sequence of a whole connection attempt, for every configuration, strategy and environment. *)
From Coq Require Import List NArith ZArith Lia Bool.
From Coq.Strings Require Import Byte.
From RecordUpdate Require Import RecordSet.
From Model Require Import Bytes Utf8 Frame Parser FrameParser Response Conn.
From Proofs Require Import ConnFacts TraceFacts RunFacts.
Import ListNotations RecordSetNotations.
Open Scope N_scope.

(* events of a trace, most recent first *)
Fixpoint evs (tr : list titem) : list ev :=
  match tr with
  | [] => []
  | TEv e :: r => e :: evs r
  | _ :: r => evs r
  end.
Lemma evs_app a b : evs (a ++ b) = evs a ++ evs b.
Proof. induction a as [|x a IH]; [reflexivity|]. destruct x; cbn; rewrite ?IH; reflexivity. Qed.

(* events that may occur between Connected and the terminal event *)
Definition loop_ev (e : ev) : Prop :=
  match e with EvConnecting | EvConnectFail | EvConnected | EvDisconnected _ => False | _ => True end.
Definition loop_item (x : titem) : Prop := match x with TEv e => loop_ev e | _ => True end.

Lemma evs_not_event l : Forall not_event l -> evs l = [].
Proof. induction 1 as [|x l Hx _ IH]; [reflexivity|]. destruct x; cbn in *; try contradiction; exact IH. Qed.
Lemma evs_loop_item l : Forall loop_item l -> Forall loop_ev (evs l).
Proof. induction 1 as [|x l Hx _ IH]; [constructor|]. destruct x; cbn in *; auto. Qed.

Lemma not_event_loop_item x : not_event x -> loop_item x.
Proof. destruct x; cbn; auto. contradiction. Qed.
Lemma housekeeping_loop_item x : housekeeping x -> loop_item x.
Proof. destruct x as [e| | | | | | | | | |]; cbn; auto. destruct e; cbn; auto. Qed.

Ltac li_inst L :=
  first [eapply L with (P := ext_by loop_item) (ok_item := loop_item) | eapply L with (P := ext_by loop_item)];
  try exact (ext_refl loop_item); try exact (ext_trans loop_item);
  try (apply ext_close_socket_gen; exact I);
  try (intros; apply send_from_emit with (ok_item := loop_item); try exact (ext_refl loop_item); try exact (ext_trans loop_item);
       try (intros; apply ext_emit; assumption); try (intros; apply ext_field; reflexivity); try (intros; exact I));
  try (intros; apply ext_emit; assumption);
  try (intros; apply ext_field; reflexivity);
  try (intros; exact I).

Section WithCfg.
  Variable cf : cfg.
  Variable app : strategy.

  Lemma li_regular c : ext_by loop_item c (fst (regular cf app c)).
  Proof. eapply ext_weaken; [exact housekeeping_loop_item|apply ext_regular]. Qed.
  Lemma li_feed_yield c e post : loop_ev e -> (forall c1, ext_by loop_item c1 (fst (post c1))) ->
    ext_by loop_item c (fst (feed_yield cf app c e post)).
  Proof. intros He Hp. li_inst fr_feed_yield; auto. Qed.
  Lemma li_raise_in_feed c e : ext_by loop_item c (fst (raise_in_feed cf app c e)).
  Proof. li_inst fr_raise_in_feed. Qed.
  Lemma li_build_message c frames : ext_by loop_item c (fst (build_message c frames)).
  Proof. li_inst fr_build_message. Qed.
  Lemma li_on_message c m : ext_by loop_item c (fst (fst (on_message cf app c m))).
  Proof. li_inst fr_on_message. intros e; destruct e; exact I. Qed.
  Lemma li_on_disconnect c : ext_by loop_item c (on_disconnect c).
  Proof. eapply ext_weaken; [exact not_event_loop_item|apply ext_on_disconnect]. Qed.

  Lemma li_on_item c x : ext_by loop_item c (fst (fst (on_item cf app c x))).
  Proof.
    unfold on_item. destruct x as [data|f].
    - destruct (on_response (c_accept cf) (parse_response data)) as [proto d|].
      + match goal with |- context [feed_yield cf app ?c0 ?e ?post] =>
          pose proof (li_feed_yield c0 e post I ltac:(intros; apply ext_refl)) as H;
          destruct (feed_yield cf app c0 e post) as [c2 st]; cbn [fst] in * end.
        eapply ext_trans; [|exact H]. destruct d; apply ext_field; reflexivity.
      + match goal with |- context [feed_yield cf app ?c0 ?e ?post] =>
          pose proof (li_feed_yield c0 e post I ltac:(intros; apply ext_refl)) as H;
          destruct (feed_yield cf app c0 e post) as [c2 st]; cbn [fst] in * end.
        eapply ext_trans; [apply li_on_disconnect|exact H].
    - pose proof (fr_stream_frame (ext_by loop_item) (ext_refl loop_item)) as Hs0.
      specialize (Hs0 ltac:(intros; apply ext_field; reflexivity) c f).
      destruct (stream_frame c f) as [c1|c1 frames|].
      + exact Hs0.
      + pose proof (li_build_message c1 frames) as Hb. destruct (build_message c1 frames) as [c2 r]. cbn [fst] in Hb.
        destruct r as [m|e].
        * eapply ext_trans; [exact Hs0|]. eapply ext_trans; [exact Hb|apply li_on_message].
        * pose proof (li_raise_in_feed c2 e) as Hr. destruct (raise_in_feed cf app c2 e) as [c3 st]. cbn [fst] in *.
          eapply ext_trans; [exact Hs0|]. eapply ext_trans; [exact Hb|exact Hr].
      + pose proof (li_raise_in_feed c MProtocol) as Hr. destruct (raise_in_feed cf app c MProtocol) as [c3 st]. exact Hr.
  Qed.

  Lemma li_feed fuel : forall c d, ext_by loop_item c (fst (feed cf app fuel c d)).
  Proof.
    induction fuel as [|f IH]; intros c d; [apply ext_refl|].
    cbn [feed]. destruct (k_closed c); [apply ext_refl|].
    destruct (fp_pull (k_ps c) d) as [x s rest|s|e].
    - pose proof (li_on_item (c <| k_ps := s |>) x) as Ho.
      destruct (on_item cf app (c <| k_ps := s |>) x) as [[c1 st] fs]. cbn [fst] in Ho.
      assert (H0 : ext_by loop_item c c1) by (eapply ext_trans; [|exact Ho]; apply ext_field; reflexivity).
      destruct st; [destruct fs|..]; cbn [fst]; try exact H0. eapply ext_trans; [exact H0|apply IH].
    - apply ext_field; reflexivity.
    - eapply ext_trans; [|apply li_raise_in_feed]. apply ext_field; reflexivity.
  Qed.

  (* how the loop ends: still waiting, or through finish; and gracefully only when the websocket is no longer active
     (a closing handshake has started, or the websocket was closed) *)
  Inductive loop_end (c : conn) : conn -> Prop :=
  | EndBlocked c' : ext_by loop_item c c' -> loop_end c (emit TBlocked c')
  | EndFinish c' st : ext_by loop_item c c' -> (st = SOk -> is_active c' = false) -> loop_end c (finish app c' st).

  Lemma is_active_closed c : k_closed c = true -> is_active c = false.
  Proof. intros H. unfold is_active. rewrite H. apply andb_false_r. Qed.

  Theorem loop_ends steps : forall c, loop_end c (loop cf app steps c).
  Proof.
    induction steps as [|st rest IH]; intros c; cbn [loop].
    - destruct (k_closed c) eqn:Ec; [apply EndFinish; [apply ext_refl|intros _; apply is_active_closed; exact Ec]|].
      apply EndBlocked. apply ext_refl.
    - destruct (k_closed c) eqn:Ec; [apply EndFinish; [apply ext_refl|intros _; apply is_active_closed; exact Ec]|].
      assert (A : forall dt, ext_by loop_item c (advance c dt)).
      { intros dt. unfold advance. eapply ext_trans; [|apply ext_emit; exact I]. apply ext_field; reflexivity. }
      assert (Lift : forall c1 c2, ext_by loop_item c c1 -> loop_end c1 c2 -> loop_end c c2).
      { intros c1 c2 H1 H2. destruct H2 as [c' H2|c' st' H2 H3].
        - apply EndBlocked. eapply ext_trans; eauto.
        - apply EndFinish; [eapply ext_trans; eauto|exact H3]. }
      destruct st as [dt|dt r|dt].
      + pose proof (li_regular (advance c dt)) as Hr. destruct (regular cf app (advance c dt)) as [c1 s1]. cbn [fst] in Hr.
        assert (H1 : ext_by loop_item c c1) by (eapply ext_trans; [apply A|exact Hr]).
        destruct s1; [eapply Lift; [exact H1|apply IH]|apply EndFinish; [exact H1|discriminate]..].
      + pose proof (li_regular (advance c dt)) as Hr. destruct (regular cf app (advance c dt)) as [c1 s1]. cbn [fst] in Hr.
        assert (H1 : ext_by loop_item c c1) by (eapply ext_trans; [apply A|exact Hr]).
        destruct s1; [|apply EndFinish; [exact H1|discriminate]..].
        destruct (if k_sock c1 then r else REof) as [d| | |];
          try (apply EndFinish; [exact H1|discriminate]).
        * destruct d as [|b d].
          -- destruct (is_active c1) eqn:Ea; apply EndFinish; try exact H1; [discriminate|intros _; exact Ea].
          -- pose proof (li_feed (S (S (length (b :: d)))) c1 (b :: d)) as Hf. unfold feedf.
             destruct (feed cf app (S (S (length (b :: d)))) c1 (b :: d)) as [c2 s2]. cbn [fst] in Hf.
             assert (H2 : ext_by loop_item c c2) by (eapply ext_trans; [exact H1|exact Hf]).
             destruct s2; [eapply Lift; [exact H2|apply IH]|apply EndFinish; [exact H2|discriminate]..].
        * destruct (is_active c1) eqn:Ea; apply EndFinish; try exact H1; [discriminate|intros _; exact Ea].
      + apply EndFinish; [apply A|discriminate].
  Qed.

  (* the events finish adds: at most the terminal one *)
  Lemma finish_events c st :
    evs (k_tr (finish app c st)) = match st with
                                   | SOk => EvDisconnected true :: evs (k_tr c)
                                   | SRaise _ => EvDisconnected false :: evs (k_tr c)
                                   | SAbandon => evs (k_tr c)
                                   end.
  Proof.
    assert (F : forall c0, evs (k_tr (close_socket (emit TSelClose c0))) = evs (k_tr c0)).
    { intros c0. destruct (ext_close_socket (emit TSelClose c0)) as (l & E & Fl). rewrite E, evs_app, (evs_not_event l Fl). reflexivity. }
    assert (D : forall g, evs (k_tr (fst (deliver app (close_socket c) (EvDisconnected g)))) = EvDisconnected g :: evs (k_tr c)).
    { intros g. destruct (deliver_trace app (close_socket c) (EvDisconnected g)) as (l & E & Fl).
      rewrite E, evs_app, (evs_not_event l Fl). cbn.
      destruct (ext_close_socket c) as (l2 & E2 & F2). rewrite E2, evs_app, (evs_not_event l2 F2). reflexivity. }
    unfold finish. destruct st.
    - specialize (D true). destruct (deliver app (close_socket c) (EvDisconnected true)) as [c1 st1]. rewrite F. exact D.
    - specialize (D false). destruct (deliver app (close_socket c) (EvDisconnected false)) as [c1 st1]. rewrite F. exact D.
    - apply F.
  Qed.

  (* C07 / C09: the chronological event sequence of a whole attempt (started from an empty trace) *)
  Inductive run_shape : list ev -> Prop :=
  | ShAbandonedAtConnecting : run_shape [EvConnecting]
  | ShConnectFail : run_shape [EvConnecting; EvConnectFail]
  | ShRunning body : Forall loop_ev body -> run_shape (EvConnecting :: EvConnected :: body)
  | ShEnded body g : Forall loop_ev body -> run_shape (EvConnecting :: EvConnected :: body ++ [EvDisconnected g]).

  Lemma rev_forall {A} (P : A -> Prop) l : Forall P l -> Forall P (rev l).
  Proof. intros H. apply Forall_forall. intros x Hx. apply in_rev in Hx. rewrite Forall_forall in H. auto. Qed.

  Theorem run_event_shape c0 cn steps : k_tr c0 = [] -> run_shape (rev (evs (k_tr (run cf app c0 cn steps)))).
  Proof.
    intros H0.
    assert (W : evs (k_tr (run cf app c0 cn steps)) = evs (k_tr (run_gen cf app c0 cn steps))).
    { unfold run. destruct (k_with _); [|reflexivity].
      destruct (ext_close_socket (run_gen cf app c0 cn steps)) as (l & E & Fl). rewrite E, evs_app, (evs_not_event l Fl). reflexivity. }
    rewrite W. unfold run_gen.
    destruct (deliver_trace app c0 EvConnecting) as (l1 & E1 & F1).
    destruct (deliver app c0 EvConnecting) as [c1 st1]. cbn [fst] in E1.
    assert (V1 : evs (k_tr c1) = [EvConnecting]) by (rewrite E1, evs_app, (evs_not_event l1 F1), H0; reflexivity).
    destruct st1; [|rewrite V1; constructor|rewrite V1; constructor].
    destruct cn.
    - set (c2 := c1 <| k_sock := true |>).
      match goal with |- context [let '(c3, r) := ?X in _] => destruct X as [c3 r] eqn:EX end.
      assert (V3 : evs (k_tr c3) = [EvConnecting]).
      { destruct (negb (k_sock c2)); [inversion EX; subst; exact V1|].
        destruct (k_closed c2); [inversion EX; subst; exact V1|]. destruct (k_closing c2); [inversion EX; subst; exact V1|].
        unfold pop_wfault in EX. destruct (k_wfaults c2) as [|w ws]; [inversion EX; subst; cbn; exact V1|].
        destruct w; inversion EX; subst; cbn; exact V1. }
      destruct r as [x|].
      + destruct (deliver_trace app (close_socket c3) EvConnectFail) as (l & E & Fl).
        destruct (deliver app (close_socket c3) EvConnectFail) as [c4 st4]. cbn [fst] in *.
        rewrite E, evs_app, (evs_not_event l Fl). cbn.
        destruct (ext_close_socket c3) as (l2 & E2 & F2). rewrite E2, evs_app, (evs_not_event l2 F2), V3. cbn. constructor.
      + destruct (deliver_trace app c3 EvConnected) as (l & E & Fl).
        destruct (deliver app c3 EvConnected) as [c4 st4]. cbn [fst] in E.
        assert (V4 : evs (k_tr c4) = [EvConnected; EvConnecting]) by (rewrite E, evs_app, (evs_not_event l Fl); cbn; rewrite V3; reflexivity).
        destruct st4.
        * destruct (loop_ends steps c4) as [c' Hx|c' st' Hx _].
          -- destruct Hx as (lb & Eb & Fb). cbn. rewrite Eb, evs_app, V4, rev_app_distr. cbn.
             apply ShRunning. apply rev_forall. apply evs_loop_item. exact Fb.
          -- destruct Hx as (lb & Eb & Fb). rewrite finish_events.
             assert (Vb : evs (k_tr c') = evs lb ++ [EvConnected; EvConnecting]) by (rewrite Eb, evs_app, V4; reflexivity).
             destruct st'; cbn [rev]; rewrite Vb, ?rev_app_distr; cbn.
             ++ apply ShEnded. apply rev_forall. apply evs_loop_item. exact Fb.
             ++ apply ShEnded. apply rev_forall. apply evs_loop_item. exact Fb.
             ++ apply ShRunning. apply rev_forall. apply evs_loop_item. exact Fb.
        * destruct (ext_close_socket c4) as (l2 & E2 & F2). rewrite E2, evs_app, (evs_not_event l2 F2), V4. cbn.
          apply (ShRunning []). constructor.
        * destruct (ext_close_socket c4) as (l2 & E2 & F2). rewrite E2, evs_app, (evs_not_event l2 F2), V4. cbn.
          apply (ShRunning []). constructor.
    - destruct (deliver_trace app c1 EvConnectFail) as (l & E & Fl).
      destruct (deliver app c1 EvConnectFail) as [c4 st4]. cbn [fst] in *.
      rewrite E, evs_app, (evs_not_event l Fl). cbn. rewrite V1. cbn. constructor.
    - destruct (deliver_trace app c1 EvConnectFail) as (l & E & Fl).
      destruct (deliver app c1 EvConnectFail) as [c4 st4]. cbn [fst] in *.
      rewrite E, evs_app, (evs_not_event l Fl). cbn. rewrite V1. cbn. constructor.
  Qed.

  (* termination: a script that contains an end of stream, a socket error, an arbitrary exception on recv or a raising
     selector never leaves the iterator waiting *)
  Definition terminating (st : step) : bool :=
    match st with StRead _ REof | StRead _ ROSErr | StRead _ RExc | StSelExc _ => true | _ => false end.

  Theorem loop_terminates steps : forall c, existsb terminating steps = true ->
    exists c' st, loop cf app steps c = finish app c' st.
  Proof.
    induction steps as [|st rest IH]; intros c H; [discriminate|].
    cbn [loop]. destruct (k_closed c); [eauto|].
    cbn [existsb] in H.
    destruct st as [dt|dt r|dt].
    - cbn in H. destruct (regular cf app (advance c dt)) as [c1 s1]. destruct s1; eauto.
    - destruct (regular cf app (advance c dt)) as [c1 s1]. destruct s1; eauto.
      destruct (k_sock c1).
      + destruct r as [d| | |]; eauto.
        * destruct d as [|b d]; [destruct (is_active c1); eauto|].
          cbn in H. destruct (feedf cf app c1 (b :: d)) as [c2 s2]. destruct s2; eauto.
        * destruct (is_active c1); eauto.
      + destruct (is_active c1); eauto.
    - eauto.
  Qed.
End WithCfg.
