(* C08 on a connection that negotiated permessage-deflate, server-initiated direction: after a conforming prefix (compressed
   and uncompressed messages, any fragmentation) the server's Close frame yields Closing, and the client echoes exactly one
   Close frame -- never compressed -- with the same code and reason and is then closing. *)
From Coq Require Import List NArith ZArith Arith Lia Bool.
From Coq.Strings Require Import Byte.
From RecordUpdate Require Import RecordSet.
From Model Require Import Bytes Utf8 Frame Parser FrameParser Response Conn.
From Proofs Require Import BytesFacts ParserFacts FrameParserFacts FrameFacts ConnFacts ApiFacts TraceFacts CloseFacts ViolationFacts ShapeFacts DeliveryFacts StreamViolation CloseStream DeliveryZ.
Import ListNotations RecordSetNotations.
Open Scope N_scope.

Section CloseStreamZ.
  Variable cf : cfg.
  Variable app : strategy.
  Hypothesis app_benign : benign app.
  Hypothesis no_ping_timeout : zpos (c_ping_timeout cf) = None.

  Theorem server_close_after_prefix_z d fs lfs c open tape ms open' tape' f lf code reason :
    idle_z d c open tape -> data_head open -> Forall zframe fs -> forms_ok fs lfs ->
    ref_messages_z open tape fs = Some (ms, open', tape') ->
    zframe f -> f_rsv1 f = false -> f_op f = OP_CLOSE -> f_fin f = true -> blen (f_payload f) <= 125 -> form_ok lf (blen (f_payload f)) = true ->
    good_close (f_payload f) code reason ->
    exists c', feedf cf app c (encode_all fs lfs ++ enc_frame f lf) = (c', SOk) /\
      msg_events (k_tr c') = EvClosing code reason :: rev (map ev_of ms) ++ msg_events (k_tr c) /\
      perrors (k_tr c') = perrors (k_tr c) /\
      k_closing c' = true /\ k_closed c' = false /\
      (c_ping_rate cf = 0%Z -> c_auto_pong cf = true -> wok c ->
       writes (k_tr c') = (OP_CLOSE, f_payload f) :: rev (pong_replies ms) ++ writes (k_tr c)).
  Proof.
    intros Hidle Hdh Hpl Hforms Href Hpf Hr1 Hop Hfin Hlen Hform Hgood.
    destruct (deliver_frames_z cf app app_benign no_ping_timeout d fs lfs c open tape ms open' tape' Hidle Hdh Hpl Hforms Href)
      as (c1 & E1 & Hidle1 & Hdh1 & M1 & S1 & W1).
    pose proof (feed_ok_no_protocol_error cf app c _ c1 E1) as P1.
    rewrite (feed_split cf app (length (encode_all fs lfs)) (encode_all fs lfs) (enc_frame f lf) c (le_n _) (idle_z_ok d c open tape Hidle)).
    unfold then_feed. rewrite E1. cbn [fst snd].
    destruct Hidle1 as (Hcl & Hcg & Hdf & Hsc & Hfr & Hzt & Hab).
    assert (Hv : validate_err true (hdr_z f) (blen (f_payload f)) = false).
    { unfold validate_err, hdr_z. cbn [h_r1 h_r2 h_r3 h_op h_fin]. rewrite Hop, Hfin.
      replace (125 <? blen (f_payload f)) with false by (symmetry; apply N.ltb_ge; exact Hlen). reflexivity. }
    destruct (pull_one_frame_z (k_ps c1) (is_text_msg open') f lf [] Hab Hpf Hform Hv) as (s' & Hpull & Hab').
    rewrite app_nil_r in Hpull.
    rewrite feedf_unfold by (rewrite Hab; unfold fp_ok, st_ok; cbn; lia). unfold feed_body. rewrite Hcl, Hpull.
    set (cs := c1 <| k_ps := s' |>).
    assert (Hvalid : (match code with Some n => invalid_close_code n | None => false end) = false).
    { destruct Hgood as [(_ & -> & _)|(a & b & _ & _ & -> & Hc)]; [reflexivity|exact Hc]. }
    assert (Hitem : on_item cf app cs (IFrame f) = on_message cf app cs (MClose code reason)).
    { unfold on_item, stream_frame. rewrite Hop. change (is_control OP_CLOSE) with true. cbv iota.
      rewrite (build_plain_hd cs f [] Hr1).
      cbv zeta. rewrite payload_of_one', Hop. change (OP_CLOSE =? OP_BINARY) with false. change (OP_CLOSE =? OP_TEXT) with false.
      change (OP_CLOSE =? OP_CLOSE) with true. cbv iota.
      destruct Hgood as [(-> & -> & ->)|(a & b & -> & Hu8 & -> & Hc)]; [reflexivity|rewrite Hu8; reflexivity]. }
    rewrite Hitem, (server_close_is_echoed cf app cs code reason Hcl Hcg Hvalid).
    unfold feed_yield.
    destruct (in_feed_yield_closing cf app app_benign no_ping_timeout cs code reason Hsc) as (Y1 & (Z1&Z2&Z3&Z4&Z5&Z6&Z7&Z8) & Y3 & Y4).
    pose proof (fun r0 => regular_writes cf app app_benign no_ping_timeout r0) as RW.
    assert (WY : c_ping_rate cf = 0%Z -> writes (k_tr (fst (in_feed_yield cf app cs (EvClosing code reason)))) = writes (k_tr cs)
                 /\ (wok cs -> wok (fst (in_feed_yield cf app cs (EvClosing code reason))))).
    { intros R0. unfold in_feed_yield. cbn [on_event].
      destruct (deliver_benign app app_benign cs (EvClosing code reason)) as (cd & Ed & (_&_&_&_&_&D6&_) & _).
      pose proof (deliver_writes app app_benign cs (EvClosing code reason)) as DW.
      pose proof (deliver_wok app app_benign cs (EvClosing code reason)) as DK.
      rewrite Ed in *. cbn [fst] in DW, DK.
      assert (Hs0 : k_sent_close_time cd = None) by (rewrite D6; exact Hsc).
      destruct (RW R0 cd Hs0) as [R1 R2].
      destruct (regular_quiet cf app app_benign no_ping_timeout cd Hs0) as (Q1 & _).
      destruct (regular cf app cd) as [c2 st2]. cbn [fst snd] in *. subst st2.
      split; [rewrite R1; exact DW|intros w0; apply R2, DK, w0]. }
    destruct (in_feed_yield cf app cs (EvClosing code reason)) as [c2 st2]. cbn [fst snd] in *. subst st2. cbv beta iota.
    assert (Hcl2 : k_closed c2 = false) by (rewrite Z4; exact Hcl).
    assert (Hcg2 : k_closing c2 = false) by (rewrite Z3; exact Hcg).
    destruct (ws_close_fields c2 code reason Hcl2) as (F1 & F2 & F3 & F4 & F5).
    destruct (ext_ws_close c2 code reason) as (lw & Elw & Flw).
    set (c3 := (fst (ws_close c2 code reason)) <| k_closing := true |>) in *.
    assert (Hps3 : k_ps c3 = s') by (change (k_ps c3) with (k_ps (fst (ws_close c2 code reason))); rewrite F1, Z1; reflexivity).
    assert (Hok3 : fp_ok (k_ps c3)) by (rewrite Hps3, Hab'; unfold fp_ok, st_ok; cbn; lia).
    exists c3. split.
    { rewrite feedf_unfold by exact Hok3. unfold feed_body. change (k_closed c3) with (k_closed (fst (ws_close c2 code reason))). rewrite F2.
      change (fp_pull (k_ps c3) []) with (NeedMore (item:=pitem) (err:=perr) (k_ps c3)). cbv beta iota.
      rewrite set_ps_same. reflexivity. }
    change (k_tr c3) with (k_tr (fst (ws_close c2 code reason))).
    split; [rewrite Elw, (msg_events_not_event lw _ Flw), Y3; change (k_tr cs) with (k_tr c1); rewrite M1; reflexivity|].
    split; [rewrite Elw, perrors_nope by (eapply Forall_impl; [exact not_event_nope|exact Flw]); rewrite Y4; change (k_tr cs) with (k_tr c1); exact P1|].
    split; [reflexivity|]. split; [exact F2|].
    intros R0 Au Hw.
    destruct (W1 R0 Au Hw) as (Hw1 & Ew1).
    destruct (WY R0) as (Ew2 & Hw2).
    assert (Hwcs : wok cs) by exact Hw1. specialize (Hw2 Hwcs). destruct Hw2 as (K1 & K2 & K3).
    assert (Hpl125 : blen (close_payload code reason) <= 125) by (rewrite (good_close_payload _ _ _ Hgood); exact Hlen).
    destruct (close_writes_the_close_frame c2 code reason K1 Hcl2 Hcg2 Hpl125 ltac:(rewrite K2; exact I)) as (T1 & _ & _).
    cbv zeta in T1. rewrite T1, writes_write. rewrite (good_close_payload _ _ _ Hgood).
    rewrite wview_build; [|apply next_key_length; exact K3|reflexivity|lia].
    rewrite Ew2. change (k_tr cs) with (k_tr c1). rewrite Ew1. reflexivity.
  Qed.
End CloseStreamZ.

(* client-initiated direction on such a connection: the client has sent its Close and is closing (parser between two frames,
   no message open); the server's Close -- never compressed -- followed by ANY bytes completes the handshake *)
Section ClientCloseZ.
  Variable cf : cfg.
  Variable app : strategy.
  Hypothesis app_benign : benign app.
  Hypothesis no_ping_timeout : zpos (c_ping_timeout cf) = None.
  Hypothesis no_close_timeout : zpos (c_close_timeout cf) = None.

  Definition closing_idle_z (d : deflate_cfg) (c : conn) : Prop :=
    k_closed c = false /\ k_closing c = true /\ k_deflate c = Some d /\ k_frames c = [] /\ at_boundary_z (k_ps c) false.

  Theorem client_close_completed_z d c f lf code reason rest :
    closing_idle_z d c ->
    zframe f -> f_rsv1 f = false -> f_op f = OP_CLOSE -> f_fin f = true -> blen (f_payload f) <= 125 -> form_ok lf (blen (f_payload f)) = true ->
    good_close (f_payload f) code reason ->
    exists c', feedf cf app c (enc_frame f lf ++ rest) = (c', SOk) /\
      msg_events (k_tr c') = EvClosed code reason :: msg_events (k_tr c) /\
      k_closed c' = true /\ writes (k_tr c') = writes (k_tr c).
  Proof.
    intros (Hcl & Hcg & Hdf & Hfr & Hab) Hpf Hr1 Hop Hfin Hlen Hform Hgood.
    assert (Hv : validate_err true (hdr_z f) (blen (f_payload f)) = false).
    { unfold validate_err, hdr_z. cbn [h_r1 h_r2 h_r3 h_op h_fin]. rewrite Hop, Hfin.
      replace (125 <? blen (f_payload f)) with false by (symmetry; apply N.ltb_ge; exact Hlen). reflexivity. }
    destruct (pull_one_frame_z (k_ps c) false f lf rest Hab Hpf Hform Hv) as (s' & Hpull & Hab').
    rewrite feedf_unfold by (rewrite Hab; unfold fp_ok, st_ok; cbn; lia). unfold feed_body. rewrite Hcl, Hpull.
    set (cs := c <| k_ps := s' |>).
    assert (Hvalid : (match code with Some n => invalid_close_code n | None => false end) = false).
    { destruct Hgood as [(_ & -> & _)|(a & b & _ & _ & -> & Hc)]; [reflexivity|exact Hc]. }
    assert (Hitem : on_item cf app cs (IFrame f) = on_message cf app cs (MClose code reason)).
    { unfold on_item, stream_frame. rewrite Hop. change (is_control OP_CLOSE) with true. cbv iota.
      rewrite (build_plain_hd cs f [] Hr1).
      cbv zeta. rewrite payload_of_one', Hop. change (OP_CLOSE =? OP_BINARY) with false. change (OP_CLOSE =? OP_TEXT) with false.
      change (OP_CLOSE =? OP_CLOSE) with true. cbv iota.
      destruct Hgood as [(-> & -> & ->)|(a & b & -> & Hu8 & -> & Hc)]; [reflexivity|rewrite Hu8; reflexivity]. }
    rewrite Hitem, (server_close_completes_handshake cf app cs code reason Hcl Hcg Hvalid).
    unfold feed_yield, in_feed_yield. cbn [on_event].
    destruct (deliver_benign app app_benign cs (EvClosed code reason)) as (c1 & E1 & (A1&A2&A3&A4&A5&A6&A7&A8) & M1).
    pose proof (deliver_closing_writes app app_benign cs (EvClosed code reason) Hcg) as W1. rewrite E1 in W1. cbn [fst] in W1.
    rewrite E1. cbv beta iota.
    assert (Hcg1 : k_closing c1 = true) by (rewrite A3; exact Hcg).
    destruct (regular_closing cf app app_benign no_ping_timeout no_close_timeout c1 Hcg1) as (R1 & (S1&S2&S3&S4&S5&S6&S7&S8) & R3 & R4).
    destruct (regular cf app c1) as [c2 st2]. cbn [fst snd] in *. subst st2. cbv beta iota.
    set (c3 := c2 <| k_closed := true |> <| k_closing := false |>).
    exists c3. split.
    { unfold feedf. cbn [feed]. change (k_closed c3) with true. reflexivity. }
    change (k_tr c3) with (k_tr c2).
    split; [rewrite R3, M1; reflexivity|]. split; [reflexivity|]. rewrite R4, W1. reflexivity.
  Qed.
End ClientCloseZ.
