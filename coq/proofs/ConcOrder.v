(* C11: each thread's frames reach the wire in the order of its calls, and every send that returned normally is on the
   wire -- for EVERY schedule, any number of threads and calls. *)
From Coq Require Import List NArith Arith Lia Bool.
From Model Require Import Conc.
From Proofs Require Import ConcFacts.
Import ListNotations.
Local Open Scope nat_scope.

(* subsequence: l1 can be obtained from l2 by deleting elements *)
Inductive subseq {A} : list A -> list A -> Prop :=
| SubNil : subseq [] []
| SubSkip x l1 l2 : subseq l1 l2 -> subseq l1 (x :: l2)
| SubTake x l1 l2 : subseq l1 l2 -> subseq (x :: l1) (x :: l2).

Lemma subseq_refl {A} (l : list A) : subseq l l.
Proof. induction l; [apply SubNil|apply SubTake; assumption]. Qed.

(* the completed frames of thread t on the wire, most recent first (as message ids) *)
Definition mine (t : tid) (w : wpart) : bool := (w_tid w =? t) && negb (is_p1 w).
Definition wire_of (t : tid) (s : shared) : list nat := map w_msg (filter (mine t) (s_wire s)).

(* the calls of a thread that are over, most recent first *)
Definition done_msgs (th : thread) : list nat := map (fun r => msg_of (fst r)) (th_results th).

(* before the point where session.write() has put the frame on the wire *)
Definition prewrite (p : pc) : bool :=
  match p with
  | PStart | PZLock | PZCompress | PZFlush | PLock | PReadSock | PReadClosing | PReadClosed | PSetClosing | PSend1 | PSend2
  | PCloseReadClosed | PCloseReadClosing | PSrvEntry | PSrvReadClosed | PSrvReadClosing => true
  | _ => false
  end.
Definition wrote (p : pc) : bool := match p with PUnlock None | PZUnlock None => true | _ => false end.
Definition is_send (c : ccall) : bool := match c with KSend _ _ _ => true | _ => false end.
Definition send_pc (p : pc) : bool :=
  match p with
  | PZLock | PZCompress | PZFlush | PLock | PReadSock | PReadClosing | PReadClosed | PSend1 | PSend2 | PUnlock _ | PZUnlock _ => true
  | _ => false
  end.

Definition oinv (s : shared) (t : tid) (th : thread) : Prop :=
  (match th_cur th with
   | Some (c, p) =>
       (is_send c = true -> send_pc p = true) /\
       if prewrite p then subseq (wire_of t s) (done_msgs th)
       else subseq (wire_of t s) (msg_of c :: done_msgs th) /\ (wrote p = true -> In (msg_of c) (wire_of t s))
   | None => subseq (wire_of t s) (done_msgs th)
   end) /\
  (forall c, In (c, None) (th_results th) -> is_send c = true -> In (msg_of c) (wire_of t s)).

(* what one action does to the wire *)
Lemma cstep_wire s t c p s' p' : cstep s t c p = (s', p') ->
  s_wire s' = match p with PSend1 => mkp t c P1 :: s_wire s | PSend2 => mkp t c P2 :: s_wire s | _ => s_wire s end.
Proof.
  intros E. destruct p; cbn [cstep] in E;
    repeat match type of E with (if ?b then _ else _) = _ => destruct b end;
    injection E as <- <-; reflexivity.
Qed.

Lemma wire_of_other s t c p s' p' u : cstep s t c p = (s', p') -> u <> t -> wire_of u s' = wire_of u s.
Proof.
  intros E Hne. pose proof (cstep_wire _ _ _ _ _ _ E) as Ew. unfold wire_of. rewrite Ew.
  destruct p; try reflexivity; cbn [filter]; unfold mine at 1; cbn [mkp w_tid]; destruct (Nat.eqb_spec t u); try congruence; reflexivity.
Qed.

Lemma wire_of_self s t c p s' p' : cstep s t c p = (s', p') ->
  wire_of t s' = match p with PSend2 => msg_of c :: wire_of t s | _ => wire_of t s end.
Proof.
  intros E. pose proof (cstep_wire _ _ _ _ _ _ E) as Ew. unfold wire_of. rewrite Ew.
  destruct p; try reflexivity; cbn [filter]; unfold mine at 1; cbn [mkp w_tid w_part is_p1]; rewrite Nat.eqb_refl; reflexivity.
Qed.

Lemma wire_of_add_log t s t0 p0 : wire_of t (add_log s t0 p0) = wire_of t s.
Proof. reflexivity. Qed.

(* how the program counter moves *)
Lemma cstep_pcs s t c p s' p' : cstep s t c p = (s', p') ->
  (prewrite p' = true -> prewrite p = true) /\
  (wrote p' = true -> p = PSend2 \/ wrote p = true) /\
  (p = PSend2 -> p' = PUnlock None) /\
  (is_send c = true -> send_pc p = true ->
     match p' with PDone r => r = None -> wrote p = true | _ => send_pc p' = true end).
Proof.
  intros E.
  destruct p; cbn [cstep] in E;
    repeat match type of E with (if ?b then _ else _) = _ => destruct b end;
    try (injection E as <- <-; cbn; repeat split; intros; try discriminate; try tauto; try congruence; fail).
  all: injection E as <- <-; unfold after_write; destruct c as [d z m|m| |]; cbn [is_send compressed];
    try (destruct d, z); cbn; repeat split; intros; try discriminate; try tauto; try congruence.
  all: try (destruct r; cbn in *; try discriminate; try congruence; tauto).
  all: repeat match goal with |- context [if ?b then _ else _] => destruct b | H : context [if ?b then _ else _] |- _ => destruct b end; cbn in *; try discriminate; try tauto.
Qed.

Lemma subseq_in {A} (l1 l2 : list A) x : subseq l1 l2 -> In x l1 -> In x l2.
Proof. induction 1 as [|y a b _ IH|y a b _ IH]; intros Hx; [exact Hx|right; auto|destruct Hx as [->|Hx]; [left; reflexivity|right; auto]]. Qed.

(* the step of the thread itself *)
Lemma step_cur_oinv s t c p rest res s' p' :
  let D := map (fun r => msg_of (fst r)) res in
  (is_send c = true -> send_pc p = true) ->
  (if prewrite p then subseq (wire_of t s) D
   else subseq (wire_of t s) (msg_of c :: D) /\ (wrote p = true -> In (msg_of c) (wire_of t s))) ->
  (forall c0, In (c0, None) res -> is_send c0 = true -> In (msg_of c0) (wire_of t s)) ->
  cstep (add_log s t p) t c p = (s', p') ->
  oinv s' t (match p' with
             | PDone r => {| th_cur := None; th_todo := rest; th_results := (c, r) :: res |}
             | _ => {| th_cur := Some (c, p'); th_todo := rest; th_results := res |}
             end).
Proof.
  intros D Hk Hcur Hres E.
  pose proof (wire_of_self _ _ _ _ _ _ E) as Ew. rewrite wire_of_add_log in Ew.
  destruct (cstep_pcs _ _ _ _ _ _ E) as (Pp & Pw & Ps2 & Pk).
  set (W := wire_of t s) in *. set (W' := wire_of t s') in *. set (m := msg_of c) in *.
  assert (Hmono : forall x, In x W -> In x W').
  { intros x Hx. rewrite Ew. destruct p; try exact Hx. right. exact Hx. }
  (* the facts about the new position, whatever it is *)
  assert (Hnew : (prewrite p' = true -> subseq W' D) /\ subseq W' (m :: D) /\ (wrote p' = true -> In m W')).
  { destruct (prewrite p) eqn:Epre.
    - assert (Ws : p <> PSend2 -> W' = W) by (intros Hn; rewrite Ew; destruct p; try reflexivity; congruence).
      split; [|split].
      + intros Hp'. destruct p; try (rewrite Ew; exact Hcur). rewrite (Ps2 eq_refl) in Hp'. discriminate.
      + rewrite Ew. destruct p; try (apply SubSkip; exact Hcur). apply SubTake. exact Hcur.
      + intros Hw. destruct (Pw Hw) as [->|Hw2]; [rewrite Ew; left; reflexivity|].
        destruct p; cbn in Epre, Hw2; try discriminate; destruct r; discriminate.
    - destruct Hcur as [Hs Hw0].
      assert (Ws : W' = W) by (rewrite Ew; destruct p; try reflexivity; discriminate).
      split; [|split].
      + intros Hp'. specialize (Pp Hp'). congruence.
      + rewrite Ws. exact Hs.
      + intros Hw. rewrite Ws. destruct (Pw Hw) as [->|Hw2]; [discriminate|auto]. }
  destruct Hnew as (N1 & N2 & N3).
  assert (Hres' : forall c0, In (c0, None) res -> is_send c0 = true -> In (msg_of c0) W') by (intros; apply Hmono; auto).
  destruct p'; unfold oinv; cbn [th_cur th_results done_msgs];
    try (split; [|exact Hres']; split; [intros Hsend; exact (Pk Hsend (Hk Hsend))|]; cbn [prewrite]; first [exact (N1 eq_refl) | split; [exact N2|exact N3]]).
  (* PDone *)
  split; [cbn [map fst]; exact N2|].
  intros c0 [Hc0|Hc0] Hs0; [|apply Hres'; assumption].
  injection Hc0 as <- ->. apply Hmono. specialize (Pk Hs0 (Hk Hs0) eq_refl).
  destruct (prewrite p) eqn:Epre; [destruct p; cbn in Epre, Pk; try discriminate; destruct r; discriminate|].
  destruct Hcur as [_ Hw0]. apply Hw0. exact Pk.
Qed.

Lemma step_thread_oinv s t th : oinv s t th -> oinv (fst (step_thread s t th)) t (snd (step_thread s t th)).
Proof.
  intros (Hc & Hr). unfold step_thread. destruct th as [cur todo res]. cbn [th_cur th_todo th_results] in *.
  destruct cur as [[c p]|].
  - destruct Hc as [Hk Hcur].
    destruct (cstep (add_log s t p) t c p) as [s' p'] eqn:E.
    pose proof (step_cur_oinv s t c p todo res s' p' Hk Hcur Hr E) as H.
    destruct p'; exact H.
  - destruct todo as [|c rest]; [split; assumption|].
    destruct (cstep (add_log s t (start_pc c)) t c (start_pc c)) as [s' p'] eqn:E.
    assert (Hk : is_send c = true -> send_pc (start_pc c) = true).
    { destruct c as [d z m|m| |]; cbn; try discriminate. destruct d, z; reflexivity. }
    assert (Hcur : if prewrite (start_pc c) then subseq (wire_of t s) (map (fun r => msg_of (fst r)) res)
                   else subseq (wire_of t s) (msg_of c :: map (fun r => msg_of (fst r)) res) /\
                        (wrote (start_pc c) = true -> In (msg_of c) (wire_of t s))).
    { destruct c as [d z m|m| |]; cbn [start_pc]; try (destruct d, z; cbn [compressed]); cbn [prewrite wrote]; try exact Hc.
      split; [apply SubSkip; exact Hc|discriminate]. }
    pose proof (step_cur_oinv s t c (start_pc c) rest res s' p' Hk Hcur Hr E) as H.
    destruct p'; exact H.
Qed.

(* ... and of any other thread *)
Lemma step_thread_other s t th u thu : u <> t -> oinv s u thu -> oinv (fst (step_thread s t th)) u thu.
Proof.
  intros Hne H.
  assert (Ew : wire_of u (fst (step_thread s t th)) = wire_of u s).
  { unfold step_thread. destruct (th_cur th) as [[c p]|].
    - destruct (cstep (add_log s t p) t c p) as [s' p'] eqn:E. pose proof (wire_of_other _ _ _ _ _ _ u E Hne) as Ho.
      destruct p'; exact Ho.
    - destruct (th_todo th) as [|c rest]; [reflexivity|].
      destruct (cstep (add_log s t (start_pc c)) t c (start_pc c)) as [s' p'] eqn:E.
      pose proof (wire_of_other _ _ _ _ _ _ u E Hne) as Ho. destruct p'; exact Ho. }
  unfold oinv in *. rewrite Ew. exact H.
Qed.

Definition sys_oinv (st : shared * threads) : Prop :=
  forall t th, nth_error (snd st) t = Some th -> oinv (fst st) t th.

Theorem sched_step_oinv st t : sys_oinv st -> sys_oinv (sched_step st t).
Proof.
  destruct st as [s ths]. intros H. unfold sched_step.
  destruct (nth_error ths t) as [th|] eqn:Eth; [|exact H].
  destruct (enabled s t th); [|exact H].
  pose proof (step_thread_oinv s t th (H t th Eth)) as Hself.
  pose proof (fun u thu Hne Hu => step_thread_other s t th u thu Hne (H u thu Hu)) as Hother.
  destruct (step_thread s t th) as [s' th']. cbn [fst snd] in *.
  intros u thu Hu. cbn [fst snd] in *.
  destruct (Nat.eq_dec u t) as [->|Hne].
  - rewrite nth_upd_same in Hu by (eapply nth_some_lt; eauto). injection Hu as <-. exact Hself.
  - rewrite nth_upd_other in Hu by congruence. apply Hother; assumption.
Qed.

Theorem exec_oinv sched : forall st, sys_oinv st -> sys_oinv (exec st sched).
Proof.
  unfold exec. induction sched as [|t rest IH]; intros st H; [exact H|].
  cbn [fold_left]. apply IH. apply sched_step_oinv. exact H.
Qed.

Lemma init_oinv progs : sys_oinv (init_shared, map mk_thread progs).
Proof.
  intros t th H. cbn in H. apply nth_error_In in H. apply in_map_iff in H as (calls & <- & _).
  split; [cbn; constructor|]. intros c [].
Qed.

(* ---------- in terms of the programs the threads were given ---------- *)
Definition calls_of (th : thread) : list ccall :=
  rev (map fst (th_results th)) ++ (match th_cur th with Some (c, _) => [c] | None => [] end) ++ th_todo th.

Lemma step_thread_calls s t th : calls_of (snd (step_thread s t th)) = calls_of th.
Proof.
  unfold step_thread, calls_of. destruct th as [cur todo res]. cbn [th_cur th_todo th_results].
  destruct cur as [[c p]|].
  - destruct (cstep (add_log s t p) t c p) as [s' p']. destruct p'; cbn [snd th_cur th_todo th_results map fst rev]; try reflexivity.
    rewrite <- app_assoc. reflexivity.
  - destruct todo as [|c rest]; [reflexivity|].
    destruct (cstep (add_log s t (start_pc c)) t c (start_pc c)) as [s' p']. destruct p'; cbn [snd th_cur th_todo th_results map fst rev]; try reflexivity.
    rewrite <- app_assoc. reflexivity.
Qed.

Definition sys_calls (progs : list (list ccall)) (st : shared * threads) : Prop :=
  forall t th, nth_error (snd st) t = Some th -> nth_error progs t = Some (calls_of th).

Lemma sched_step_calls progs st t : sys_calls progs st -> sys_calls progs (sched_step st t).
Proof.
  destruct st as [s ths]. intros H. unfold sched_step.
  destruct (nth_error ths t) as [th|] eqn:Eth; [|exact H].
  destruct (enabled s t th); [|exact H].
  pose proof (step_thread_calls s t th) as Hc. destruct (step_thread s t th) as [s' th']. cbn [snd] in Hc.
  intros u thu Hu. cbn [fst snd] in *.
  destruct (Nat.eq_dec u t) as [->|Hne].
  - rewrite nth_upd_same in Hu by (eapply nth_some_lt; eauto). injection Hu as <-. rewrite Hc. apply H. exact Eth.
  - rewrite nth_upd_other in Hu by congruence. apply H. exact Hu.
Qed.
Lemma exec_calls progs sched : forall st, sys_calls progs st -> sys_calls progs (exec st sched).
Proof.
  unfold exec. induction sched as [|t rest IH]; intros st H; [exact H|]. cbn [fold_left]. apply IH. apply sched_step_calls. exact H.
Qed.
Lemma init_calls progs : sys_calls progs (init_shared, map mk_thread progs).
Proof.
  intros t th H. cbn [snd] in H. rewrite nth_error_map in H. destruct (nth_error progs t) as [calls|]; [|discriminate].
  injection H as <-. unfold calls_of, mk_thread. cbn. reflexivity.
Qed.

Lemma subseq_app_r {A} (l1 l2 x : list A) : subseq l1 l2 -> subseq l1 (l2 ++ x).
Proof.
  induction 1 as [|y a b _ IH|y a b _ IH]; cbn.
  - induction x as [|z x IHx]; [constructor|apply SubSkip; exact IHx].
  - apply SubSkip. exact IH.
  - apply SubTake. exact IH.
Qed.
Lemma subseq_snoc {A} (l1 l2 : list A) x : subseq l1 l2 -> subseq (l1 ++ [x]) (l2 ++ [x]).
Proof. induction 1 as [|y a b _ IH|y a b _ IH]; cbn; [apply SubTake; constructor|apply SubSkip; exact IH|apply SubTake; exact IH]. Qed.
Lemma subseq_rev {A} (l1 l2 : list A) : subseq l1 l2 -> subseq (rev l1) (rev l2).
Proof.
  induction 1 as [|y a b _ IH|y a b _ IH]; cbn; [constructor|apply subseq_app_r; exact IH|apply subseq_snoc; exact IH].
Qed.

(* C11: the frames of thread t, in the order in which they reached the wire, are a subsequence of the calls the thread
   was given, in the order it was given them: nothing of it is reordered or duplicated *)
Theorem thread_order progs sched t calls :
  nth_error progs t = Some calls ->
  subseq (rev (wire_of t (fst (exec (init_shared, map mk_thread progs) sched)))) (map msg_of calls).
Proof.
  intros Hp.
  pose proof (exec_oinv sched _ (init_oinv progs)) as HO. pose proof (exec_calls progs sched _ (init_calls progs)) as HC.
  destruct (exec (init_shared, map mk_thread progs) sched) as [s ths] eqn:Ex. cbn [fst snd] in *.
  assert (Hlen : length ths = length progs).
  { assert (L : forall sch st, length (snd (exec st sch)) = length (snd st)).
    { induction sch as [|u r IH]; intros st; [reflexivity|]. unfold exec in *. cbn [fold_left]. rewrite IH.
      destruct st as [s0 ths0]. unfold sched_step. destruct (nth_error ths0 u); [|reflexivity].
      destruct (enabled s0 u t0); [|reflexivity]. destruct (step_thread s0 u t0). cbn. apply upd_length. }
    specialize (L sched (init_shared, map mk_thread progs)). rewrite Ex in L. cbn in L. rewrite map_length in L. exact L. }
  destruct (nth_error ths t) as [th|] eqn:Eth.
  2:{ apply nth_error_None in Eth. assert (t < length progs) by (apply nth_error_Some; congruence). lia. }
  specialize (HO t th Eth). specialize (HC t th Eth). rewrite Hp in HC. injection HC as ->.
  destruct HO as [Hc _]. unfold calls_of. rewrite !map_app, map_rev, map_map.
  assert (Hstarted : subseq (wire_of t s) ((match th_cur th with Some (c, _) => [msg_of c] | None => [] end) ++ done_msgs th)).
  { destruct (th_cur th) as [[c p]|]; [|exact Hc]. destruct Hc as [_ Hc]. cbn [List.app].
    destruct (prewrite p); [apply SubSkip; exact Hc|apply Hc]. }
  apply subseq_rev in Hstarted. rewrite rev_app_distr in Hstarted. unfold done_msgs in Hstarted.
  rewrite app_assoc. apply subseq_app_r.
  destruct (th_cur th) as [[c p]|]; cbn [map rev List.app] in *; [exact Hstarted|rewrite app_nil_r in *; exact Hstarted].
Qed.

(* C11: a send that returned normally has its frame on the wire *)
Theorem sent_is_on_wire progs sched t th c :
  nth_error (snd (exec (init_shared, map mk_thread progs) sched)) t = Some th ->
  In (c, None) (th_results th) -> is_send c = true ->
  In (msg_of c) (wire_of t (fst (exec (init_shared, map mk_thread progs) sched))).
Proof.
  intros Hth Hin Hs. pose proof (exec_oinv sched _ (init_oinv progs)) as HO.
  destruct (HO t th Hth) as [_ Hr]. apply Hr; assumption.
Qed.
