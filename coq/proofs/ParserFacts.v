(* Segmentation lemma for the coroutine parser (lomond/parser.py): pulling from a ++ b equals pulling from a and,
   when a is exhausted, continuing with b.  Generic in the grammar. *)
From Coq Require Import List NArith Arith Lia Bool ZifyN ZifyNat.
From Coq.Strings Require Import Byte.
From Model Require Import Bytes Parser.
Import ListNotations.
Local Open Scope nat_scope.

Section ParserFacts.
  Variable G item err : Type.
  Variable sep : bytes.
  Hypothesis sep_nonempty : sep <> [].
  Variable resume : G -> bytes -> res G item err.
  Variable validate : G -> bytes -> option G.
  Variable e_utf8 e_len : err.
  Hypothesis validate_app : forall g a b,
      validate g (a ++ b) = match validate g a with Some g' => validate g' b | None => None end.
  Hypothesis validate_nil : forall g, validate g [] = Some g.

  Notation pst := (pst G).
  Notation out := (out G item err).
  Notation find_sep := (find_sep sep).
  Notation pull_body := (pull_body G item err sep resume validate e_utf8 e_len).
  Notation pull := (pull G item err sep resume validate e_utf8 e_len).
  Notation pullf := (pullf G item err sep resume validate e_utf8 e_len).

  (* ---------- take/drop are firstn/skipn ---------- *)
  Lemma take_firstn n d : take n d = firstn (N.to_nat n) d.
  Proof.
    unfold take, blen. destruct (N.le_gt_cases n (N.of_nat (length d))) as [H|H].
    - rewrite N.min_l by exact H. reflexivity.
    - rewrite N.min_r by lia. rewrite Nnat.Nat2N.id. rewrite firstn_all. symmetry. apply firstn_all2. lia.
  Qed.
  Lemma drop_skipn n d : drop n d = skipn (N.to_nat n) d.
  Proof.
    unfold drop, blen. destruct (N.le_gt_cases n (N.of_nat (length d))) as [H|H].
    - rewrite N.min_l by exact H. reflexivity.
    - rewrite N.min_r by lia. rewrite Nnat.Nat2N.id. rewrite skipn_all. symmetry. apply skipn_all2. lia.
  Qed.

  (* ---------- find_sep ---------- *)
  Lemma prefixb_app p l m : prefixb p l = true -> prefixb p (l ++ m) = true.
  Proof.
    revert l; induction p as [|a p IH]; intros [|b l]; simpl; auto; try discriminate.
    intros H; apply andb_true_iff in H as [H1 H2]. rewrite H1, IH; auto.
  Qed.
  Lemma prefixb_length p l : prefixb p l = true -> length p <= length l.
  Proof.
    revert l; induction p as [|a p IH]; intros [|b l]; simpl; try lia; try discriminate.
    intros H; apply andb_true_iff in H as [_ H2]. apply IH in H2; lia.
  Qed.
  Lemma prefixb_app_inv p l m : prefixb p (l ++ m) = true -> length p <= length l -> prefixb p l = true.
  Proof.
    revert l; induction p as [|a p IH]; intros [|b l]; simpl; auto; try lia.
    intros H L; apply andb_true_iff in H as [H1 H2]. rewrite H1, IH; auto; lia.
  Qed.
  Lemma find_bound l i : find_sep l = Some i -> i + length sep <= length l.
  Proof.
    revert i; induction l as [|b t IH]; simpl; intros i H; [discriminate|].
    destruct (prefixb sep (b :: t)) eqn:E.
    - inversion H; subst. apply prefixb_length in E. simpl in *; lia.
    - destruct (find_sep t) as [k|]; simpl in H; [|discriminate]. inversion H; subst.
      specialize (IH k eq_refl). lia.
  Qed.
  Lemma find_app_some l m i : find_sep l = Some i -> find_sep (l ++ m) = Some i.
  Proof.
    revert i; induction l as [|b t IH]; simpl; intros i H; [discriminate|].
    destruct (prefixb sep (b :: t)) eqn:E.
    - change (b :: t ++ m) with ((b :: t) ++ m). rewrite prefixb_app; auto.
    - destruct (find_sep t) as [k|] eqn:F; simpl in H; [|discriminate].
      rewrite (IH k eq_refl). simpl.
      destruct (prefixb sep (b :: t ++ m)) eqn:E2; auto.
      change (b :: t ++ m) with ((b :: t) ++ m) in E2.
      apply prefixb_app_inv in E2; [congruence|].
      apply find_bound in F. simpl; lia.
  Qed.
  Lemma find_app_none l m i : find_sep l = None -> find_sep (l ++ m) = Some i -> length l < i + length sep.
  Proof.
    revert i; induction l as [|b t IH]; simpl; intros i H1 H2.
    - destruct sep; [congruence|simpl; lia].
    - destruct (prefixb sep (b :: t)) eqn:E; [discriminate|].
      destruct (find_sep t) as [k|] eqn:F; simpl in H1; [discriminate|].
      destruct (prefixb sep (b :: t ++ m)) eqn:E2.
      + inversion H2; subst. simpl.
        destruct (le_lt_dec (length sep) (S (length t))); [|lia].
        change (b :: t ++ m) with ((b :: t) ++ m) in E2.
        apply prefixb_app_inv in E2; [congruence|simpl; lia].
      + destruct (find_sep (t ++ m)) as [k|] eqn:F2; simpl in H2; [|discriminate].
        inversion H2; subst. specialize (IH k eq_refl eq_refl). lia.
  Qed.

  (* ---------- state invariant ---------- *)
  Definition aw_ok (a : aw) (n : N) := match a with AwBytes _ => (0 < n)%N | _ => True end.
  Hypothesis resume_ok : forall g buf,
      match resume g buf with
      | RItem _ _ a n | RAwait _ a n => aw_ok a n
      | RErr _ => True end.
  Definition st_ok (s : pst) :=
    match paw s with AwBytes _ => (0 < prem s)%N | AwUntil _ => find_sep (pbuf s) = None end.
  Definition mk g a n : pst := {| pg := g; paw := a; prem := n; pbuf := [] |}.
  Lemma mk_ok g a n : aw_ok a n -> st_ok (mk g a n).
  Proof. unfold st_ok, mk; simpl. destruct a; simpl; auto. Qed.

  Lemma until_shrinks buf0 d i :
    find_sep buf0 = None -> find_sep (buf0 ++ d) = Some i ->
    length (skipn (i + length sep) (buf0 ++ d)) < length d.
  Proof.
    intros F0 F. pose proof (find_app_none _ _ _ F0 F). pose proof (find_bound _ _ F).
    rewrite skipn_length, app_length in *. lia.
  Qed.

  (* pull_body only calls its continuation on ok states and strictly shorter data *)
  Lemma body_ext k1 k2 s d : st_ok s ->
    (forall s' d', st_ok s' -> length d' < length d -> k1 s' d' = k2 s' d') ->
    pull_body k1 s d = pull_body k2 s d.
  Proof.
    intros Hs H. unfold Parser.pull_body. destruct d as [|b d]; auto.
    unfold st_ok in Hs. destruct (paw s) as [u|max] eqn:Ea; cbn beta iota in Hs.
    - destruct (if u then _ else _) as [g'|]; auto.
      destruct (_ =? 0)%N; auto.
      pose proof (resume_ok g' (pbuf s ++ take (prem s) (b :: d))) as R.
      destruct (resume g' _) as [x g2 a n|g2 a n|e]; simpl; auto.
      apply H; [apply mk_ok; auto|]. rewrite drop_skipn, skipn_length.
      assert (0 < N.to_nat (prem s)) by lia. cbn [length] in *; lia.
    - destruct (find_sep (pbuf s ++ b :: d)) as [i|] eqn:F; auto.
      destruct (too_long _ _); auto.
      pose proof (resume_ok (pg s) (firstn (i + length sep) (pbuf s ++ b :: d))) as R.
      destruct (resume (pg s) _) as [x g2 a n|g2 a n|e]; simpl; auto.
      apply H; [apply mk_ok; auto|]. apply until_shrinks; auto.
  Qed.

  Lemma pull_fuel f1 : forall f2 s d, st_ok s -> length d < f1 -> length d < f2 -> pull f1 s d = pull f2 s d.
  Proof.
    induction f1 as [|f1 IH]; intros f2 s d Hs H1 H2; [lia|].
    destruct f2 as [|f2]; [lia|]. cbn [Parser.pull].
    apply body_ext; auto. intros s' d' Hs' L. apply IH; auto; lia.
  Qed.

  Lemma pullf_unfold s d : st_ok s -> pullf s d = pull_body pullf s d.
  Proof.
    intros Hs. unfold Parser.pullf at 1. cbn [Parser.pull]. apply body_ext; auto.
    intros s' d' Hs' L. unfold Parser.pullf. apply pull_fuel; auto; lia.
  Qed.

  Lemma too_long_mono max a b : a <= b -> too_long max a = true -> too_long max b = true.
  Proof. unfold too_long; destruct max; auto. intros L H. apply N.ltb_lt in H. apply N.ltb_lt. lia. Qed.

  Definition out_app (o : out) (b : bytes) (k : pst -> out) : out :=
    match o with
    | Item x s r => Item x s (r ++ b)
    | NeedMore s => k s
    | Err e => Err e
    end.

  Lemma pullf_nil s : pullf s [] = NeedMore s.
  Proof. reflexivity. Qed.

  (* ---------- the segmentation lemma ---------- *)
  Lemma pull_split n : forall s a b, length a <= n -> st_ok s ->
    pullf s (a ++ b) = out_app (pullf s a) b (fun s' => pullf s' b).
  Proof.
    induction n as [|n IH]; intros s a b La Hs.
    { destruct a; [|simpl in La; lia]. simpl. reflexivity. }
    destruct a as [|a0 a]; [simpl; reflexivity|].
    rewrite (pullf_unfold s ((a0 :: a) ++ b)), (pullf_unfold s (a0 :: a)) by auto.
    unfold Parser.pull_body.
    change ((a0 :: a) ++ b) with (a0 :: a ++ b). cbv beta iota zeta.
    change (a0 :: a ++ b) with ((a0 :: a) ++ b).
    remember (a0 :: a) as A eqn:EA.
    assert (LA : 0 < length A) by (subst A; simpl; lia).
    assert (LAn : length A <= S n) by (subst A; exact La).
    unfold st_ok in Hs.
    destruct (paw s) as [u|max] eqn:Ea; cbn beta iota in Hs.
    - rewrite !take_firstn, !drop_skipn.
      set (P := N.to_nat (prem s)) in *.
      assert (HP : 0 < P) by (unfold P; lia).
      assert (Hsub : forall k, (k <= P)%nat -> (prem s - N.of_nat k =? 0)%N = (P - k =? 0)).
      { intros k Hk. unfold P. destruct (Nat.eqb_spec (N.to_nat (prem s) - k) 0) as [E|E].
        - apply N.eqb_eq. lia.
        - apply N.eqb_neq. lia. }
      destruct (le_lt_dec P (length A)) as [L|L].
      + (* the fixed read completes inside a *)
        rewrite firstn_app, skipn_app.
        replace (P - length A) with 0 by lia. cbn [firstn skipn]. rewrite app_nil_r.
        destruct (if u then validate (pg s) (firstn P A) else Some (pg s)) as [g'|]; [|reflexivity].
        unfold blen. rewrite firstn_length_le by lia.
        rewrite (Hsub P) by lia. rewrite Nat.sub_diag. cbn [Nat.eqb].
        pose proof (resume_ok g' (pbuf s ++ firstn P A)) as R.
        destruct (resume g' _) as [x g2 aw2 m|g2 aw2 m|e]; simpl; auto.
        apply IH; [|apply mk_ok; auto].
        rewrite skipn_length. lia.
      + (* the read extends past a *)
        rewrite firstn_app, skipn_app.
        rewrite (firstn_all2 (n:=P) A) by lia.
        rewrite (skipn_all2 (n:=P) A) by lia. cbn [app].
        assert (Hv : (if u then validate (pg s) (A ++ firstn (P - length A) b) else Some (pg s)) =
                     match (if u then validate (pg s) A else Some (pg s)) with
                     | Some g1 => if u then validate g1 (firstn (P - length A) b) else Some g1
                     | None => None end).
        { destruct u; [apply validate_app|reflexivity]. }
        rewrite Hv. clear Hv.
        destruct (if u then validate (pg s) A else Some (pg s)) as [g1|]; [|reflexivity].
        unfold blen. rewrite (Hsub (length A)) by lia.
        replace (P - length A =? 0) with false by (symmetry; apply Nat.eqb_neq; lia).
        simpl out_app.
        destruct b as [|b0 b'].
        * (* b empty *)
          cbn [firstn]. rewrite firstn_nil, app_nil_r.
          assert (Hn : (if u then validate g1 [] else Some g1) = Some g1) by (destruct u; auto).
          rewrite Hn. unfold blen. rewrite (Hsub (length A)) by lia.
          replace (P - length A =? 0) with false by (symmetry; apply Nat.eqb_neq; lia).
          reflexivity.
        * assert (Hr : (0 < prem s - N.of_nat (length A))%N) by (unfold P in *; lia).
          rewrite pullf_unfold by (unfold st_ok; simpl; exact Hr).
          unfold Parser.pull_body. cbn [paw prem pg pbuf]. cbv beta iota zeta.
          remember (b0 :: b') as B eqn:EB.
          rewrite take_firstn, drop_skipn.
          replace (N.to_nat (prem s - N.of_nat (length A))) with (P - length A) by (unfold P; lia).
          destruct (if u then validate g1 (firstn (P - length A) B) else Some g1) as [g2|]; [|reflexivity].
          rewrite <- app_assoc.
          unfold blen. rewrite !app_length.
          replace (prem s - N.of_nat (length A + length (firstn (P - length A) B)))%N
             with (prem s - N.of_nat (length A) - N.of_nat (length (firstn (P - length A) B)))%N by lia.
          destruct (_ =? 0)%N; reflexivity.
    - (* read-until *)
      rewrite app_assoc.
      destruct (find_sep (pbuf s ++ A)) as [i|] eqn:F.
      + rewrite (find_app_some _ b _ F).
        destruct (too_long max (i + length sep)); [reflexivity|].
        pose proof (find_bound _ _ F) as Bd.
        rewrite firstn_app, skipn_app.
        replace (i + length sep - length (pbuf s ++ A)) with 0 by lia. cbn [firstn skipn]. rewrite app_nil_r.
        pose proof (resume_ok (pg s) (firstn (i + length sep) (pbuf s ++ A))) as R.
        destruct (resume (pg s) _) as [x g2 aw2 m|g2 aw2 m|e]; simpl; auto.
        apply IH; [|apply mk_ok; auto].
        pose proof (until_shrinks _ _ _ Hs F). lia.
      + destruct (too_long max (length (pbuf s ++ A))) eqn:TL.
        * simpl out_app.
          destruct (find_sep ((pbuf s ++ A) ++ b)) as [i|] eqn:F2.
          -- pose proof (find_app_none _ _ _ F F2).
             assert (T2 : too_long max (i + length sep) = true)
               by (apply (too_long_mono max (length (pbuf s ++ A))); auto; lia).
             rewrite T2. reflexivity.
          -- assert (T2 : too_long max (length ((pbuf s ++ A) ++ b)) = true)
               by (apply (too_long_mono max (length (pbuf s ++ A))); auto; rewrite (app_length (pbuf s ++ A) b); lia).
             rewrite T2. reflexivity.
        * simpl out_app.
          destruct b as [|b0 b'].
          -- rewrite app_nil_r, F, TL. reflexivity.
          -- rewrite pullf_unfold by (unfold st_ok; simpl; auto).
             unfold Parser.pull_body. cbn [paw prem pg pbuf]. cbv beta iota zeta.
             reflexivity.
  Qed.

  (* what a pull leaves behind *)
  Lemma pullf_ok s d : st_ok s ->
    match pullf s d with
    | Item _ s' r => st_ok s' /\ length r < length d
    | NeedMore s' => st_ok s'
    | Err _ => True
    end.
  Proof.
    remember (length d) as n eqn:En. revert s d En.
    induction n as [n IH] using lt_wf_ind. intros s d En Hs. subst n.
    rewrite pullf_unfold by exact Hs. unfold Parser.pull_body.
    destruct d as [|b0 d0]; [exact Hs|].
    remember (b0 :: d0) as d eqn:Ed.
    assert (Ld : 0 < length d) by (subst d; simpl; lia).
    unfold st_ok in Hs. destruct (paw s) as [u|max] eqn:Ea; cbn beta iota in Hs.
    - destruct (if u then _ else _) as [g'|]; [|exact I].
      destruct (_ =? 0)%N eqn:Ez.
      + pose proof (resume_ok g' (pbuf s ++ take (prem s) d)) as R.
        assert (Lr : length (drop (prem s) d) < length d).
        { rewrite drop_skipn, skipn_length. assert (0 < N.to_nat (prem s)) by lia. lia. }
        destruct (resume g' _) as [x g2 a m|g2 a m|e]; simpl; auto.
        * split; [apply mk_ok; auto|exact Lr].
        * specialize (IH (length (drop (prem s) d)) ltac:(lia) (mk g2 a m) (drop (prem s) d) eq_refl (mk_ok _ _ _ R)).
          unfold mk in IH. destruct (pullf _ _); auto. destruct IH; split; auto; lia.
      + unfold st_ok. cbn [paw prem]. apply N.eqb_neq in Ez. lia.
    - destruct (find_sep (pbuf s ++ d)) as [i|] eqn:F.
      + destruct (too_long _ _); [exact I|].
        pose proof (resume_ok (pg s) (firstn (i + length sep) (pbuf s ++ d))) as R.
        pose proof (until_shrinks _ _ _ Hs F) as Lr.
        destruct (resume (pg s) _) as [x g2 a m|g2 a m|e]; simpl; auto.
        * split; [apply mk_ok; auto|exact Lr].
        * specialize (IH (length (skipn (i + length sep) (pbuf s ++ d))) ltac:(lia) (mk g2 a m) _ eq_refl (mk_ok _ _ _ R)).
          unfold mk in IH. destruct (pullf _ _); auto. destruct IH; split; auto; lia.
      + destruct (too_long _ _); [exact I|]. unfold st_ok. cbn [paw pbuf]. exact F.
  Qed.
  (* ---------- which items a parser in a given class of coroutine states can produce ----------
     Qpre: the class of the coroutine state before; while no item is produced the coroutine stays in Qpre; an item
     produced from Qpre satisfies R and leaves the coroutine in Qpost. *)
  Section Classes.
    Variables (Qpre Qpost : G -> Prop) (R : item -> Prop).
    Hypothesis class_validate : forall g c g', Qpre g -> validate g c = Some g' -> Qpre g'.
    Hypothesis class_resume : forall g buf, Qpre g ->
      match resume g buf with
      | RItem x g' _ _ => R x /\ Qpost g'
      | RAwait g' _ _ => Qpre g'
      | RErr _ => True
      end.

    Lemma pull_class fuel : forall s d, Qpre (pg s) ->
      match pull fuel s d with
      | Item x s' _ => R x /\ Qpost (pg s')
      | NeedMore s' => Qpre (pg s')
      | Err _ => True
      end.
    Proof.
      induction fuel as [|fuel IH]; intros s d Hq; [exact Hq|].
      cbn [Parser.pull]. unfold Parser.pull_body.
      destruct d as [|b0 d0]; [exact Hq|].
      assert (AR : forall g buf rest, Qpre g ->
                match after_resume G item err (resume g buf) rest (pull fuel) with
                | Item x s' _ => R x /\ Qpost (pg s')
                | NeedMore s' => Qpre (pg s')
                | Err _ => True
                end).
      { intros g buf rest Hg. pose proof (class_resume g buf Hg) as Hr.
        destruct (resume g buf) as [x g' a n|g' a n|e]; cbn [after_resume]; [exact Hr| |exact I].
        apply IH. exact Hr. }
      destruct (paw s) as [u|max].
      - destruct (if u then validate (pg s) (take (prem s) (b0 :: d0)) else Some (pg s)) as [g'|] eqn:Ev; [|exact I].
        assert (Hg' : Qpre g').
        { destruct u; [eapply class_validate; eauto|inversion Ev; subst; exact Hq]. }
        cbv zeta. destruct (_ =? 0)%N; [apply AR; exact Hg'|exact Hg'].
      - cbv zeta. destruct (find_sep (pbuf s ++ b0 :: d0)) as [i|].
        + destruct (too_long max _); [exact I|]. apply AR. exact Hq.
        + destruct (too_long max _); [exact I|exact Hq].
    Qed.

    Lemma pullf_class s d : Qpre (pg s) ->
      match pullf s d with
      | Item x s' _ => R x /\ Qpost (pg s')
      | NeedMore s' => Qpre (pg s')
      | Err _ => True
      end.
    Proof. apply pull_class. Qed.
  End Classes.
End ParserFacts.
