(* The socket is never used after it has been released: in every run -- any configuration, any application strategy, any
   connect outcome, any environment script -- no write (of a frame, of the upgrade request; successful or failing) is
   attempted on the socket, and the socket is not closed a second time, once socket.close() has been called.
   As an invariant of the connection model (the same frame argument as CloseFacts.v). *)
From Coq Require Import List NArith ZArith Lia Bool.
From Coq.Strings Require Import Byte.
From RecordUpdate Require Import RecordSet.
From Model Require Import Bytes Utf8 Frame Parser FrameParser Response Conn.
From Proofs Require Import BytesFacts FrameFacts ConnFacts ApiFacts.
Import ListNotations RecordSetNotations.
Open Scope N_scope.

(* operations on the socket object that the trace records *)
Definition is_sock_use (x : titem) : bool :=
  match x with TWrite _ | TWriteFail _ | TWriteReq _ | TSockClose => true | _ => false end.
Definition is_sock_close (x : titem) : bool := match x with TSockClose => true | _ => false end.
Definition nsc (tr : list titem) : nat := length (filter is_sock_close tr).

(* the trace is most recent first: every use of the socket has no socket.close() before it *)
Fixpoint use_ok (tr : list titem) : Prop :=
  match tr with
  | [] => True
  | x :: r => (is_sock_use x = true -> nsc r = 0%nat) /\ use_ok r
  end.

Definition rinv (c : conn) : Prop := use_ok (k_tr c) /\ (k_sock c = true -> nsc (k_tr c) = 0%nat).
Definition rkeeps (c c' : conn) : Prop := rinv c -> rinv c'.

Lemma rkeeps_refl c : rkeeps c c. Proof. intros H; exact H. Qed.
Lemma rkeeps_trans a b c : rkeeps a b -> rkeeps b c -> rkeeps a c.
Proof. unfold rkeeps; auto. Qed.

Lemma nsc_cons x r : nsc (x :: r) = ((if is_sock_close x then 1 else 0) + nsc r)%nat.
Proof. unfold nsc. cbn [filter]. destruct (is_sock_close x); reflexivity. Qed.

Lemma rkeeps_emit c x : is_sock_use x = false -> rkeeps c (emit x c).
Proof.
  intros Hx (H1 & H2). unfold rinv. change (k_tr (emit x c)) with (x :: k_tr c). change (k_sock (emit x c)) with (k_sock c). split.
  - cbn [use_ok]. split; [rewrite Hx; discriminate|exact H1].
  - intros Hs. rewrite nsc_cons. destruct x; cbn [is_sock_use is_sock_close] in *; try discriminate; apply H2; exact Hs.
Qed.
Lemma rkeeps_field c c' : k_tr c' = k_tr c -> (k_sock c' = true -> k_sock c = true) -> rkeeps c c'.
Proof. intros Ht Hf (H1 & H2). unfold rinv. rewrite Ht. split; auto. Qed.

(* a use of the socket while it is open: no close before it *)
Lemma rinv_use c c2 x : rinv c -> k_sock c = true -> k_tr c2 = k_tr c -> is_sock_close x = false -> rinv (emit x c2).
Proof.
  intros (H1 & H2) Hs Ht Hx. unfold rinv. change (k_tr (emit x c2)) with (x :: k_tr c2). rewrite Ht. split.
  - cbn [use_ok]. split; [intros _; apply H2; exact Hs|exact H1].
  - intros _. rewrite nsc_cons, Hx. apply H2. exact Hs.
Qed.

(* write() touches the socket only while k_sock says it is open *)
Lemma rkeeps_send_frame c op r p : rkeeps c (fst (send_frame c op r p)).
Proof.
  unfold send_frame, pop_key.
  assert (W : forall c0 d f, rkeeps c0 (fst (write c0 d f))).
  { intros c0 d f. unfold write.
    destruct (k_sock c0) eqn:Es; cbn [negb]; [|apply rkeeps_refl].
    destruct (k_closed c0); [apply rkeeps_refl|]. destruct (k_closing c0); [apply rkeeps_refl|].
    intros Hi.
    set (c1 := if f then _ else c0).
    assert (Htr : k_tr c1 = k_tr c0) by (unfold c1; destruct f; reflexivity).
    unfold pop_wfault. destruct (k_wfaults c1) as [|w ws]; cbn [fst].
    - apply (rinv_use c0); auto.
    - destruct w; cbn [fst]; apply (rinv_use c0); auto. }
  destruct (k_keys c) as [|k ks]; [apply W|].
  eapply rkeeps_trans; [|apply W]. apply rkeeps_field; auto.
Qed.

(* socket.close() happens at most once: only while k_sock says the socket is open, and the flag is cleared with it *)
Lemma rkeeps_close_socket0 c : rkeeps c (close_socket c).
Proof.
  unfold close_socket. destruct (k_sock c) eqn:Es; [|apply rkeeps_refl].
  intros (H1 & H2). unfold rinv. split.
  - change (k_tr (emit TSockClose (c <| k_sock := false |>))) with (TSockClose :: k_tr c). cbn [use_ok].
    split; [intros _; apply H2; exact Es|exact H1].
  - intros Hs. discriminate Hs.
Qed.

Ltac rk_inst L :=
  first [eapply L with (P := rkeeps) (ok_item := fun x => is_sock_use x = false) | eapply L with (P := rkeeps)];
  try exact rkeeps_refl; try exact rkeeps_trans; try exact rkeeps_close_socket0;
  try (intros; apply rkeeps_send_frame);
  try (intros; apply rkeeps_emit; assumption);
  try (intros; apply rkeeps_field; [reflexivity|cbn; auto]);
  try (intros; reflexivity).

Section WithCfg.
  Variable cf : cfg.
  Variable app : strategy.

  Lemma rkeeps_api_call c a : rkeeps c (fst (api_call c a)).
  Proof. rk_inst fr_api_call. Qed.
  Lemma rkeeps_deliver c e : rkeeps c (fst (deliver app c e)).
  Proof. rk_inst fr_deliver. Qed.
  Lemma rkeeps_regular c : rkeeps c (fst (regular cf app c)).
  Proof. rk_inst fr_regular. Qed.
  Lemma rkeeps_close_socket c : rkeeps c (close_socket c).
  Proof. rk_inst fr_close_socket. Qed.
  Lemma rkeeps_on_disconnect c : rkeeps c (on_disconnect c).
  Proof. rk_inst fr_on_disconnect. Qed.
  Lemma rkeeps_feed_yield c e post : (forall c1, rkeeps c1 (fst (post c1))) -> rkeeps c (fst (feed_yield cf app c e post)).
  Proof. intros H. rk_inst fr_feed_yield. exact H. Qed.
  Lemma rkeeps_raise_in_feed c e : rkeeps c (fst (raise_in_feed cf app c e)).
  Proof. rk_inst fr_raise_in_feed. Qed.
  Lemma rkeeps_build_message c frames : rkeeps c (fst (build_message c frames)).
  Proof. rk_inst fr_build_message. Qed.
  Lemma rkeeps_on_message c m : rkeeps c (fst (fst (on_message cf app c m))).
  Proof. rk_inst fr_on_message. intros e; destruct e; try exact I; reflexivity. Qed.
  Lemma rkeeps_stream_frame c f :
    match stream_frame c f with SNone c1 | SMsg c1 _ => rkeeps c c1 | SErr => True end.
  Proof. pose proof (fr_stream_frame rkeeps rkeeps_refl) as H. apply H. intros. apply rkeeps_field; auto. Qed.

  Lemma rkeeps_on_item c x : rkeeps c (fst (fst (on_item cf app c x))).
  Proof.
    unfold on_item. destruct x as [data|f].
    - destruct (on_response (c_accept cf) (parse_response data)) as [proto d|].
      + match goal with |- context [feed_yield cf app ?c0 ?e ?post] =>
          pose proof (rkeeps_feed_yield c0 e post ltac:(intros; apply rkeeps_refl)) as H;
          destruct (feed_yield cf app c0 e post) as [c2 st]; cbn [fst] in * end.
        eapply rkeeps_trans; [|exact H]. destruct d; [apply rkeeps_field; auto|apply rkeeps_refl].
      + match goal with |- context [feed_yield cf app ?c0 ?e ?post] =>
          pose proof (rkeeps_feed_yield c0 e post ltac:(intros; apply rkeeps_refl)) as H;
          destruct (feed_yield cf app c0 e post) as [c2 st]; cbn [fst] in * end.
        eapply rkeeps_trans; [apply rkeeps_on_disconnect|exact H].
    - pose proof (rkeeps_stream_frame c f) as Hs. destruct (stream_frame c f) as [c1|c1 frames|].
      + exact Hs.
      + pose proof (rkeeps_build_message c1 frames) as Hb. destruct (build_message c1 frames) as [c2 r]. cbn [fst] in Hb.
        destruct r as [m|e].
        * eapply rkeeps_trans; [exact Hs|]. eapply rkeeps_trans; [exact Hb|]. apply rkeeps_on_message.
        * pose proof (rkeeps_raise_in_feed c2 e) as Hr. destruct (raise_in_feed cf app c2 e) as [c3 st]. cbn [fst] in *.
          eapply rkeeps_trans; [exact Hs|]. eapply rkeeps_trans; [exact Hb|exact Hr].
      + pose proof (rkeeps_raise_in_feed c MProtocol) as Hr. destruct (raise_in_feed cf app c MProtocol) as [c3 st]. exact Hr.
  Qed.

  Lemma rkeeps_feed fuel : forall c d, rkeeps c (fst (feed cf app fuel c d)).
  Proof.
    induction fuel as [|f IH]; intros c d; [apply rkeeps_refl|].
    cbn [feed]. destruct (k_closed c); [apply rkeeps_refl|].
    destruct (fp_pull (k_ps c) d) as [x s rest|s|e].
    - pose proof (rkeeps_on_item (c <| k_ps := s |>) x) as Ho.
      destruct (on_item cf app (c <| k_ps := s |>) x) as [[c1 st] fs]. cbn [fst] in Ho.
      assert (H0 : rkeeps c c1) by (eapply rkeeps_trans; [|exact Ho]; apply rkeeps_field; auto).
      destruct st; [destruct fs|..]; cbn [fst]; try exact H0. eapply rkeeps_trans; [exact H0|apply IH].
    - apply rkeeps_field; auto.
    - eapply rkeeps_trans; [|apply rkeeps_raise_in_feed]. apply rkeeps_field; auto.
  Qed.

  Lemma rkeeps_finish c st : rkeeps c (finish app c st).
  Proof.
    unfold finish.
    assert (F : forall c0, rkeeps c0 (close_socket (emit TSelClose c0))).
    { intros c0. eapply rkeeps_trans; [apply (rkeeps_emit c0 TSelClose); reflexivity|apply rkeeps_close_socket]. }
    destruct st.
    - pose proof (rkeeps_deliver (close_socket c) (EvDisconnected true)) as H.
      destruct (deliver app (close_socket c) (EvDisconnected true)) as [c1 st1]. cbn [fst] in H.
      eapply rkeeps_trans; [apply rkeeps_close_socket|]. eapply rkeeps_trans; [exact H|apply F].
    - pose proof (rkeeps_deliver (close_socket c) (EvDisconnected false)) as H.
      destruct (deliver app (close_socket c) (EvDisconnected false)) as [c1 st1]. cbn [fst] in H.
      eapply rkeeps_trans; [apply rkeeps_close_socket|]. eapply rkeeps_trans; [exact H|apply F].
    - apply F.
  Qed.

  Lemma rkeeps_loop steps : forall c, rkeeps c (loop cf app steps c).
  Proof.
    induction steps as [|st rest IH]; intros c; cbn [loop].
    - destruct (k_closed c); [apply rkeeps_finish|apply (rkeeps_emit c TBlocked); reflexivity].
    - destruct (k_closed c); [apply rkeeps_finish|].
      assert (A : forall dt, rkeeps c (advance c dt)).
      { intros dt. unfold advance. eapply rkeeps_trans; [|apply (rkeeps_emit _ TWait); reflexivity]. apply rkeeps_field; auto. }
      destruct st as [dt|dt r|dt].
      + pose proof (rkeeps_regular (advance c dt)) as Hr. destruct (regular cf app (advance c dt)) as [c1 s1]. cbn [fst] in Hr.
        assert (H1 : rkeeps c c1) by (eapply rkeeps_trans; [apply A|exact Hr]).
        destruct s1; [eapply rkeeps_trans; [exact H1|apply IH]|eapply rkeeps_trans; [exact H1|apply rkeeps_finish]..].
      + pose proof (rkeeps_regular (advance c dt)) as Hr. destruct (regular cf app (advance c dt)) as [c1 s1]. cbn [fst] in Hr.
        assert (H1 : rkeeps c c1) by (eapply rkeeps_trans; [apply A|exact Hr]).
        destruct s1; [|eapply rkeeps_trans; [exact H1|apply rkeeps_finish]..].
        destruct (if k_sock c1 then r else REof) as [d| | |];
          try (eapply rkeeps_trans; [exact H1|apply rkeeps_finish]).
        * destruct d as [|b d].
          -- destruct (is_active c1); eapply rkeeps_trans; [exact H1|apply rkeeps_finish|exact H1|apply rkeeps_finish].
          -- pose proof (rkeeps_feed (S (S (length (b :: d)))) c1 (b :: d)) as Hf. unfold feedf.
             destruct (feed cf app (S (S (length (b :: d)))) c1 (b :: d)) as [c2 s2]. cbn [fst] in Hf.
             assert (H2 : rkeeps c c2) by (eapply rkeeps_trans; [exact H1|exact Hf]).
             destruct s2; [eapply rkeeps_trans; [exact H2|apply IH]|eapply rkeeps_trans; [exact H2|apply rkeeps_finish]..].
        * destruct (is_active c1); eapply rkeeps_trans; [exact H1|apply rkeeps_finish|exact H1|apply rkeeps_finish].
      + eapply rkeeps_trans; [apply A|apply rkeeps_finish].
  Qed.


  (* before connect(): the socket does not exist, nothing the application does creates or closes one *)
  Definition pre (c : conn) : Prop := k_sock c = false /\ nsc (k_tr c) = 0%nat /\ use_ok (k_tr c).
  Definition pkeeps (c c' : conn) : Prop := pre c -> pre c'.
  Lemma pkeeps_deliver c e : pkeeps c (fst (deliver app c e)).
  Proof.
    assert (PE : forall c0 x, is_sock_close x = false -> (is_sock_use x = true -> False) -> pkeeps c0 (emit x c0)).
    { intros c0 x Hx Hu (A & B & C). unfold pre. change (k_tr (emit x c0)) with (x :: k_tr c0). split; [exact A|].
      split; [rewrite nsc_cons, Hx; exact B|]. cbn [use_ok]. split; [intros U; destruct (Hu U)|exact C]. }
    assert (PS : forall c0 op r p, pkeeps c0 (fst (send_frame c0 op r p))).
    { intros c0 op r p (A & B & C). unfold send_frame, pop_key.
      assert (W : forall c1 d f, pre c1 -> pre (fst (write c1 d f))).
      { intros c1 d f (A1 & B1 & C1). unfold write. rewrite A1. cbn [negb fst]. repeat split; assumption. }
      destruct (k_keys c0) as [|k ks]; apply W; repeat split; assumption. }
    eapply fr_deliver with (P := pkeeps) (ok_item := fun x => is_sock_use x = false);
      try (unfold pkeeps; intros; auto; fail);
      try (intros c0 (A & B & C); unfold close_socket; rewrite A; repeat split; assumption);
      try (intros; apply PS);
      try (intros c0 x Hx; apply PE; [destruct x; cbn in *; auto; discriminate|rewrite Hx; discriminate]);
      try (intros c0 x (A & B & C); repeat split; assumption);
      try (intros; reflexivity).
  (* (all obligations discharged above) *)
  Qed.

  (* the whole run *)
  Theorem run_rkeeps c0 cn steps : pre c0 -> rinv (run cf app c0 cn steps).
  Proof.
    intros H0. unfold run.
    assert (R : rinv (run_gen cf app c0 cn steps)).
    { unfold run_gen.
      pose proof (pkeeps_deliver c0 EvConnecting H0) as P1.
      destruct (deliver app c0 EvConnecting) as [c1 st1]. cbn [fst] in P1.
      assert (H1 : rinv c1) by (destruct P1 as (A & B & C); split; [exact C|intros _; exact B]).
      destruct st1; try exact H1.
      destruct cn.
      - set (c2 := c1 <| k_sock := true |>).
        assert (H2 : rinv c2) by (destruct P1 as (A & B & C); split; [exact C|intros _; exact B]).
        assert (S2 : k_sock c2 = true) by reflexivity.
        assert (H3 : forall c3 r, (if negb (k_sock c2) then (c2, Some XUnavailable)
                     else if k_closed c2 then (c2, Some XClosed)
                     else if k_closing c2 then (c2, Some XClosing)
                     else let '(w, c') := pop_wfault c2 in
                          match w with WOk => (emit (TWriteReq true) c', None) | _ => (emit (TWriteReq false) c', Some XTransportFail) end) = (c3, r) -> rinv c3).
        { intros c3 r E. destruct (negb (k_sock c2)); [inversion E; subst; exact H2|].
          destruct (k_closed c2); [inversion E; subst; exact H2|]. destruct (k_closing c2); [inversion E; subst; exact H2|].
          unfold pop_wfault in E. destruct (k_wfaults c2) as [|w ws].
          - inversion E; subst. apply (rinv_use c2); auto.
          - destruct w; inversion E; subst; apply (rinv_use c2); auto. }
        match goal with |- context [let '(c3, r) := ?X in _] => destruct X as [c3 r] eqn:EX end.
        specialize (H3 c3 r eq_refl).
        destruct r as [x|].
        + pose proof (rkeeps_deliver (close_socket c3) EvConnectFail (rkeeps_close_socket c3 H3)) as H.
          destruct (deliver app (close_socket c3) EvConnectFail). exact H.
        + pose proof (rkeeps_deliver c3 EvConnected H3) as H4.
          destruct (deliver app c3 EvConnected) as [c4 st4]. cbn [fst] in H4.
          destruct st4; [apply rkeeps_loop; exact H4|apply rkeeps_close_socket; exact H4..].
      - pose proof (rkeeps_deliver c1 EvConnectFail H1) as H. destruct (deliver app c1 EvConnectFail). exact H.
      - pose proof (rkeeps_deliver c1 EvConnectFail H1) as H. destruct (deliver app c1 EvConnectFail). exact H. }
    destruct (k_with (run_gen cf app c0 cn steps)); [apply rkeeps_close_socket; exact R|exact R].
  Qed.
End WithCfg.

(* what the invariant says *)
Lemma use_ok_nothing_after_release tr : use_ok tr -> forall a x b, tr = a ++ x :: b -> is_sock_use x = true -> nsc b = 0%nat.
Proof.
  induction tr as [|y r IH]; intros H a x b E Hx.
  - destruct a; discriminate.
  - destruct H as [H1 H2]. destruct a as [|a0 a]; cbn in E; injection E as -> ->.
    + apply H1. exact Hx.
    + eapply IH; eauto.
Qed.
Lemma use_ok_one_close tr : use_ok tr -> (nsc tr <= 1)%nat.
Proof.
  induction tr as [|x r IH]; intros H; [cbn; lia|]. destruct H as [H1 H2]. rewrite nsc_cons.
  destruct (is_sock_close x) eqn:E.
  - assert (Hw : is_sock_use x = true) by (destruct x; cbn in *; auto; discriminate). rewrite (H1 Hw). lia.
  - specialize (IH H2). lia.
Qed.

Lemma pre_init keys wf zt ct : pre (init keys wf zt ct).
Proof. unfold pre, init. cbn. repeat split. Qed.

(* in the chronological trace of a run: once socket.close() has been called, the socket is not used again *)
Theorem no_use_after_release cf app keys wf zt ct cn steps a x b :
  k_tr (run cf app (init keys wf zt ct) cn steps) = a ++ x :: b -> is_sock_use x = true -> nsc b = 0%nat.
Proof.
  intros E Hx. destruct (run_rkeeps cf app (init keys wf zt ct) cn steps (pre_init keys wf zt ct)) as (U & _).
  eapply use_ok_nothing_after_release; eauto.
Qed.
Theorem socket_closed_at_most_once cf app keys wf zt ct cn steps :
  (nsc (k_tr (run cf app (init keys wf zt ct) cn steps)) <= 1)%nat.
Proof.
  destruct (run_rkeeps cf app (init keys wf zt ct) cn steps (pre_init keys wf zt ct)) as (U & _).
  apply use_ok_one_close. exact U.
Qed.
