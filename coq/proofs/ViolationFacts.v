(* Where each class of RFC 6455 violation is detected in the model, and that detection is an error, never a message. *)
From Coq Require Import List NArith Arith Lia Bool.
From Coq.Strings Require Import Byte.
From RecordUpdate Require Import RecordSet.
From Model Require Import Bytes Utf8 Frame Parser FrameParser Response Conn.
From Proofs Require Import BytesFacts Utf8Facts ConnFacts.
Import ListNotations RecordSetNotations.
Open Scope N_scope.

(* the RFC's per-header rules, stated on the parsed header: reserved opcode; RSV2/RSV3 always, RSV1 unless the
   extension was negotiated; control frame fragmented or longer than 125 bytes *)
Definition header_violation (compression : bool) (h : hinfo) (len : N) : Prop :=
  is_reserved (h_op h) = true \/
  h_r2 h = true \/ h_r3 h = true \/ (h_r1 h = true /\ compression = false) \/
  (is_control (h_op h) = true /\ h_fin h = false) \/
  (is_control (h_op h) = true /\ 125 < len).

Theorem validate_err_iff compression h len : validate_err compression h len = true <-> header_violation compression h len.
Proof.
  unfold validate_err, header_violation.
  destruct compression; destruct (h_r1 h), (h_r2 h), (h_r3 h), (is_reserved (h_op h)), (h_fin h), (is_control (h_op h));
    destruct (125 <? len) eqn:E; cbn; (apply N.ltb_lt in E || apply N.ltb_ge in E);
    split; intros H; try reflexivity; try discriminate; try tauto;
    repeat match goal with H : _ \/ _ |- _ => destruct H | H : _ /\ _ |- _ => destruct H end; try discriminate; try lia.
Qed.

(* a violating header makes the parser coroutine raise ProtocolError before any payload byte is requested *)
Theorem header_violation_raises g h len key : validate_err (fp_compression g) h len = true ->
  after_mask g h len key = RErr PE_Protocol.
Proof. intros H. unfold after_mask. rewrite H. reflexivity. Qed.

(* a 64-bit length of 2^63 or more *)
Theorem huge_length_raises g h len : 9223372036854775807 < len -> after_len g h len = RErr PE_Protocol.
Proof. intros H. unfold after_len. apply N.ltb_lt in H. rewrite H. reflexivity. Qed.

(* a masked frame from the server: ProtocolError once the frame is complete, and it is never delivered *)
Theorem masked_frame_raises g h key payload : h_mask h = true -> finish_frame g h key payload = RErr PE_Protocol.
Proof. intros H. unfold finish_frame. rewrite H. reflexivity. Qed.

(* continuation discipline *)
Theorem stream_discipline c f : is_control (f_op f) = false ->
  (stream_frame c f = SErr <->
   (f_op f = OP_CONT /\ k_frames c = []) \/ (f_op f <> OP_CONT /\ k_frames c <> [])).
Proof.
  intros Hc. unfold stream_frame. rewrite Hc.
  destruct (k_frames c) as [|f0 fs] eqn:Ef; destruct (f_op f =? OP_CONT) eqn:Eo;
    (apply N.eqb_eq in Eo || apply N.eqb_neq in Eo); cbn [negb].
  - split; [intros _; left; auto|reflexivity].
  - split.
    + destruct (f_fin f); discriminate.
    + intros [[H _]|[_ H]]; congruence.
  - split.
    + destruct (f_fin f); discriminate.
    + intros [[_ H]|[H _]]; congruence.
  - split; [intros _; right; split; [exact Eo|discriminate]|reflexivity].
Qed.

(* message-level violations: a 1-byte close payload; a close reason or a text that is not well-formed UTF-8 *)
Definition mk_close (p : bytes) : frame :=
  {| f_fin := true; f_rsv1 := false; f_rsv2 := false; f_rsv3 := false; f_op := OP_CLOSE; f_key := None; f_payload := p |}.
Definition mk_text (p : bytes) : frame :=
  {| f_fin := true; f_rsv1 := false; f_rsv2 := false; f_rsv3 := false; f_op := OP_TEXT; f_key := None; f_payload := p |}.

Theorem close_one_byte_is_error c b : snd (build_message c [mk_close [b]]) = inr MProtocol.
Proof. unfold build_message. cbn. reflexivity. Qed.

Theorem close_bad_reason_is_error c a b reason : ~ utf8_wf reason ->
  snd (build_message c [mk_close (a :: b :: reason)]) = inr MCritical.
Proof.
  intros H. unfold build_message. cbn. rewrite ?app_nil_r.
  destruct (utf8_validb reason) eqn:E; [apply validb_iff_wf in E; contradiction|reflexivity].
Qed.

(* text: delivered iff well-formed, whatever the fragmentation (frames = the fragments of one message) *)
Theorem text_delivered_iff_wellformed c frames first rest :
  frames = first :: rest -> f_op first = OP_TEXT -> f_rsv1 first = false ->
  let p := concat (map f_payload frames) in
  (utf8_wf p -> snd (build_message c frames) = inl (MText p)) /\
  (~ utf8_wf p -> snd (build_message c frames) = inr MCritical).
Proof.
  intros -> Hop Hr p. unfold build_message. cbn [hd]. rewrite Hr, Hop. fold p.
  change (OP_TEXT =? OP_BINARY) with false. change (OP_TEXT =? OP_TEXT) with true. cbv beta iota.
  split; intros H.
  - apply validb_iff_wf in H. rewrite H. reflexivity.
  - destruct (utf8_validb p) eqn:E; [apply validb_iff_wf in E; contradiction|reflexivity].
Qed.

(* a reserved close code is a ProtocolError whether or not the client is already closing *)
Theorem reserved_close_code_raises cf app c code reason : invalid_close_code code = true ->
  on_message cf app c (MClose (Some code) reason) =
    (let '(c1, st) := raise_in_feed cf app c MProtocol in (c1, st, FBreak)).
Proof. intros H. unfold on_message. rewrite H. reflexivity. Qed.
