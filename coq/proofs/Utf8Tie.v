(* (T1) The state graph extracted from the running Utf8Validator equals the model's automaton. *)
From Coq Require Import List NArith Bool Lia.
From Coq.Strings Require Import Byte.
From Model Require Import Bytes Utf8.
From Proofs Require Import BytesFacts.
From Gen Require Import GenUtf8.
Import ListNotations.
Open Scope N_scope.

Definition lookup (tbl : list (N * list N)) (s : N) : option (list N) :=
  option_map snd (find (fun p => N.eqb (fst p) s) tbl).

Definition step_row_ok (u : ustate) (row : list N) : bool :=
  forallb (fun b => match nth_error row (N.to_nat (b2n b)) with
                    | Some ns => N.eqb ns (N_of_ustate (ustep u b)) | None => false end) all_bytes.
Definition valid_row_ok (u : ustate) (row : list N) : bool :=
  forallb (fun b => match nth_error row (N.to_nat (b2n b)) with
                    | Some v => N.eqb v (if ustate_eqb (ustep u b) URej then 0 else 1) | None => false end) all_bytes.

Definition state_ok (u : ustate) : bool :=
  match lookup impl_step_tbl (N_of_ustate u), lookup impl_valid_tbl (N_of_ustate u) with
  | Some r1, Some r2 => step_row_ok u r1 && valid_row_ok u r2
  | _, _ => false
  end.

Definition tie_ok : bool :=
  forallb state_ok all_ustates
  && N.eqb impl_start (N_of_ustate UAcc) && N.eqb impl_accept (N_of_ustate UAcc)
  && N.eqb impl_reject (N_of_ustate URej) && N.eqb impl_reset_state (N_of_ustate UAcc)
  && Nat.eqb (length impl_states) (length all_ustates).

Lemma tie_ok_true : tie_ok = true.
Proof. vm_compute. reflexivity. Qed.

Lemma all_ustates_in u : In u all_ustates.
Proof. destruct u; simpl; tauto. Qed.

(* the lifted statement: for every state and every byte, the running code moves exactly as ustep does
   and reports "valid" exactly when ustep does not reject *)
Theorem impl_dfa_is_ustep u b :
  exists r1 r2,
    lookup impl_step_tbl (N_of_ustate u) = Some r1 /\
    lookup impl_valid_tbl (N_of_ustate u) = Some r2 /\
    nth_error r1 (N.to_nat (b2n b)) = Some (N_of_ustate (ustep u b)) /\
    nth_error r2 (N.to_nat (b2n b)) = Some (if ustate_eqb (ustep u b) URej then 0 else 1).
Proof.
  pose proof tie_ok_true as H. unfold tie_ok in H.
  do 5 (apply andb_true_iff in H as [H _]).
  rewrite forallb_forall in H. specialize (H u (all_ustates_in u)).
  unfold state_ok in H.
  destruct (lookup impl_step_tbl (N_of_ustate u)) as [r1|]; [|discriminate].
  destruct (lookup impl_valid_tbl (N_of_ustate u)) as [r2|]; [|discriminate].
  apply andb_true_iff in H as [H1 H2].
  exists r1, r2. repeat split; auto.
  - pose proof (forall_bytes _ H1 b) as Hb. cbv beta in Hb.
    destruct (nth_error r1 _); [|discriminate]. apply N.eqb_eq in Hb. congruence.
  - pose proof (forall_bytes _ H2 b) as Hb. cbv beta in Hb.
    destruct (nth_error r2 _); [|discriminate]. apply N.eqb_eq in Hb. congruence.
Qed.
