(* Frame.build round-trips through the reference server decoder. *)
From Coq Require Import List NArith Arith Lia Bool ZifyN ZifyNat.
From Coq.Strings Require Import Byte.
From Model Require Import Bytes Frame.
From Proofs Require Import BytesFacts.
Import ListNotations.
Open Scope N_scope.

(* ---------- big-endian integers ---------- *)
Lemma be_encode_length w n : length (be_encode w n) = w.
Proof. revert n; induction w as [|w IH]; intros n; simpl; [reflexivity|]. rewrite app_length, IH. simpl. lia. Qed.

Lemma be_decode_acc_app acc a b : be_decode_acc acc (a ++ b) = be_decode_acc (be_decode_acc acc a) b.
Proof. revert acc; induction a as [|x a IH]; intros acc; simpl; auto. Qed.

Lemma be_roundtrip_acc w : forall n acc, n < 256 ^ N.of_nat w -> be_decode_acc acc (be_encode w n) = acc * 256 ^ N.of_nat w + n.
Proof.
  induction w as [|w IH]; intros n acc H.
  - simpl in *. lia.
  - cbn [be_encode]. rewrite be_decode_acc_app.
    replace (N.of_nat (S w)) with (N.succ (N.of_nat w)) in * by lia.
    rewrite N.pow_succ_r' in *.
    rewrite IH by (apply N.div_lt_upper_bound; lia).
    cbn [be_decode_acc]. rewrite b2n_n2b_mod.
    pose proof (N.div_mod n 256 ltac:(lia)). lia.
Qed.

Lemma be_roundtrip w n : n < 256 ^ N.of_nat w -> be_decode (be_encode w n) = n.
Proof. intros H. unfold be_decode. rewrite be_roundtrip_acc by exact H. lia. Qed.

(* ---------- masking ---------- *)
Lemma mask_bytes_length p : forall k, length (mask_bytes k p) = length p.
Proof. induction p as [|b t IH]; intros k; simpl; [reflexivity|]. rewrite IH. reflexivity. Qed.

Lemma mask_bytes_involutive p : forall k, mask_bytes k (mask_bytes k p) = p.
Proof. induction p as [|b t IH]; intros k; simpl; [reflexivity|]. rewrite bxor_involutive, IH. reflexivity. Qed.

(* ---------- the first header byte ---------- *)
Lemma op_cases op : op < 16 -> In op [0;1;2;3;4;5;6;7;8;9;10;11;12;13;14;15].
Proof.
  intros H. destruct op as [|p]; [simpl; tauto|].
  do 4 (destruct p as [p|p|]; try (simpl; tauto)); exfalso; lia.
Qed.

Lemma byte0_decode rsv1 op : op < 16 ->
  let n0 := b2n (byte0 true rsv1 false false op) in
  (128 <=? n0) = true /\ N.testbit n0 6 = rsv1 /\ N.testbit n0 5 = false /\ N.testbit n0 4 = false /\ n0 mod 16 = op.
Proof.
  intros H. apply op_cases in H. cbn [In] in H.
  destruct rsv1; repeat (destruct H as [<-|H]; [vm_compute; repeat split; reflexivity|]); contradiction.
Qed.

Definition client_frame (op : N) (rsv1 : bool) (key payload : bytes) : frame :=
  {| f_fin := true; f_rsv1 := rsv1; f_rsv2 := false; f_rsv3 := false; f_op := op; f_key := Some key; f_payload := payload |}.

Lemma firstn_app_exact {A} (a b : list A) n : n = length a -> firstn n (a ++ b) = a.
Proof. intros ->. rewrite firstn_app, Nat.sub_diag, firstn_all. simpl. apply app_nil_r. Qed.
Lemma skipn_app_exact {A} (a b : list A) n : n = length a -> skipn n (a ++ b) = b.
Proof. intros ->. rewrite skipn_app, Nat.sub_diag, skipn_all. reflexivity. Qed.

(* what the decoder does once it knows the length *)
Lemma decode_tail key payload len :
  length key = 4%nat -> len = blen payload ->
  let r1 := key ++ mask_bytes key payload in
  firstn 4 r1 = key /\ skipn 4 r1 = mask_bytes key payload /\
  Nat.ltb (length r1) 4 = false /\ Nat.ltb (length (skipn 4 r1)) (N.to_nat len) = false /\
  mask_bytes key (firstn (N.to_nat len) (skipn 4 r1)) = payload /\ skipn (N.to_nat len) (skipn 4 r1) = [].
Proof.
  intros Hk Hl r1. subst r1 len.
  assert (E1 : firstn 4 (key ++ mask_bytes key payload) = key) by (apply firstn_app_exact; auto).
  assert (E2 : skipn 4 (key ++ mask_bytes key payload) = mask_bytes key payload) by (apply skipn_app_exact; auto).
  rewrite E1, E2. unfold blen. rewrite Nnat.Nat2N.id.
  repeat split.
  - apply Nat.ltb_ge. rewrite app_length. lia.
  - apply Nat.ltb_ge. rewrite mask_bytes_length. lia.
  - rewrite <- (mask_bytes_length payload key) at 1. rewrite firstn_all. apply mask_bytes_involutive.
  - rewrite <- (mask_bytes_length payload key). apply skipn_all.
Qed.

Theorem build_roundtrip op rsv1 key payload :
  length key = 4%nat -> op < 16 -> blen payload < 9223372036854775808 ->
  server_decode (build op rsv1 key payload) = Some (client_frame op rsv1 key payload, []).
Proof.
  intros Hk Hop Hlen.
  pose proof (byte0_decode rsv1 op Hop) as (B1 & B2 & B3 & B4 & B5). cbv zeta in *.
  set (len := blen payload) in *.
  pose proof (decode_tail key payload len Hk eq_refl) as (T1 & T2 & T3 & T4 & T5 & T6). cbv zeta in *.
  unfold build. fold len. unfold len_bytes.
  destruct (len <? 126) eqn:E7.
  - (* 7-bit length *)
    apply N.ltb_lt in E7.
    cbn [app]. unfold server_decode.
    rewrite b2n_n2b by lia.
    replace (128 + len <? 128) with false by (symmetry; apply N.ltb_ge; lia).
    replace (128 + len - 128) with len by lia.
    replace (len <? 126) with true by (symmetry; apply N.ltb_lt; lia).
    cbv beta iota zeta. cbn [negb]. rewrite T3, T4. cbn [orb]. cbv beta iota zeta. rewrite T1, T5, T6, B1, B2, B3, B4, B5. reflexivity.
  - apply N.ltb_ge in E7. destruct (len <? 65536) eqn:E16.
    + (* 16-bit length *)
      apply N.ltb_lt in E16.
      cbn [app]. unfold server_decode.
      rewrite b2n_n2b by lia.
      replace (128 + 126 <? 128) with false by reflexivity.
      replace (128 + 126 - 128) with 126 by reflexivity.
      replace (126 <? 126) with false by reflexivity. replace (126 =? 126) with true by reflexivity.
      rewrite (firstn_app_exact (be_encode 2 len)) by (rewrite be_encode_length; reflexivity).
      rewrite (skipn_app_exact (be_encode 2 len)) by (rewrite be_encode_length; reflexivity).
      rewrite be_roundtrip by (simpl; lia).
      replace (126 <=? len) with true by (symmetry; apply N.leb_le; lia).
      replace (Nat.leb 2 (length (be_encode 2 len ++ key ++ mask_bytes key payload))) with true
        by (symmetry; apply Nat.leb_le; rewrite app_length, be_encode_length; lia).
      cbv beta iota zeta. cbn [andb negb]. cbv beta iota zeta. rewrite T3, T4. cbn [orb]. cbv beta iota zeta. rewrite T1, T5, T6, B1, B2, B3, B4, B5. reflexivity.
    + (* 64-bit length *)
      apply N.ltb_ge in E16.
      cbn [app]. unfold server_decode.
      rewrite b2n_n2b by lia.
      replace (128 + 127 <? 128) with false by reflexivity.
      replace (128 + 127 - 128) with 127 by reflexivity.
      replace (127 <? 126) with false by reflexivity. replace (127 =? 126) with false by reflexivity.
      rewrite (firstn_app_exact (be_encode 8 len)) by (rewrite be_encode_length; reflexivity).
      rewrite (skipn_app_exact (be_encode 8 len)) by (rewrite be_encode_length; reflexivity).
      rewrite be_roundtrip by (simpl; lia).
      replace (65536 <=? len) with true by (symmetry; apply N.leb_le; lia).
      replace (len <? 9223372036854775808) with true by (symmetry; apply N.ltb_lt; lia).
      replace (Nat.leb 8 (length (be_encode 8 len ++ key ++ mask_bytes key payload))) with true
        by (symmetry; apply Nat.leb_le; rewrite app_length, be_encode_length; lia).
      cbv beta iota zeta. cbn [andb negb]. cbv beta iota zeta. rewrite T3, T4. cbn [orb]. cbv beta iota zeta. rewrite T1, T5, T6, B1, B2, B3, B4, B5. reflexivity.
Qed.

(* the length encoding chosen by build is the shortest one: re-encoding in another form gives different bytes that
   the reference decoder refuses (so "shortest" is part of what build_roundtrip states) *)
Lemma close_payload_length code reason :
  blen (close_payload (Some code) reason) = 2 + blen reason.
Proof. unfold close_payload, blen. rewrite app_length, be_encode_length. lia. Qed.
