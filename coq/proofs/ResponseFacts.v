(* C10, "however the reply's headers are ordered, cased, spaced ...": the reply parser reads a header block rendered from a
   list of (name, value) pairs -- names in any letter case, optional blanks and tabs around the value, the pairs in any
   order -- back as exactly those pairs: resp_get returns the stripped value for every name, the status code is the one
   rendered.  Hence the handshake decision depends on the header SET, not on its rendering. *)
From Coq Require Import String.
From Coq Require Import List NArith Arith Bool Lia.
From Coq.Strings Require Import Byte.
From Model Require Import Bytes Response Handshake Url.
From Proofs Require Import BytesFacts UrlFacts.
Import ListNotations.
Open Scope N_scope.

(* ---------- strip ---------- *)
Lemma lstrip_by_all f ws x : Forall (fun b => f b = true) ws -> lstrip_by f (ws ++ x) = lstrip_by f x.
Proof. induction 1 as [|b ws Hb _ IH]; [reflexivity|]. cbn. rewrite Hb. exact IH. Qed.

Lemma lstrip_by_head f x b t : x = b :: t -> f b = false -> lstrip_by f x = x.
Proof. intros -> H. cbn. rewrite H. reflexivity. Qed.

Lemma rstrip_by_all f ws x : Forall (fun b => f b = true) ws -> rstrip_by f (x ++ ws) = rstrip_by f x.
Proof.
  intros H. unfold rstrip_by. rewrite rev_app_distr. rewrite lstrip_by_all; [reflexivity|].
  apply Forall_rev. exact H.
Qed.

Lemma strip_pad lead trail x :
  Forall (fun b => is_space b = true) lead -> Forall (fun b => is_space b = true) trail ->
  strip (lead ++ x ++ trail) = strip x.
Proof.
  intros Hl Ht. unfold strip. rewrite lstrip_by_all by exact Hl.
  (* lstrip of (x ++ trail): either x is all space or its first non-space char stops the strip *)
  assert (G : forall y, rstrip_by is_space (lstrip_by is_space (y ++ trail)) = rstrip_by is_space (lstrip_by is_space y)).
  { induction y as [|b y IH]; cbn.
    - (* all of trail is space *)
      assert (E : lstrip_by is_space trail = []).
      { clear -Ht. induction Ht as [|b t Hb _ IH]; [reflexivity|]. cbn. rewrite Hb. exact IH. }
      rewrite E. reflexivity.
    - destruct (is_space b) eqn:Eb; [exact IH|].
      change (b :: y ++ trail) with ((b :: y) ++ trail). apply rstrip_by_all. exact Ht. }
  apply G.
Qed.

(* ---------- split on CRLF ---------- *)
Definition no_crlf (l : bytes) : Prop := Forall (fun b => b <> CR /\ b <> LF) l.

Lemma beqb_refl x : Byte.eqb x x = true.
Proof. apply Byte.byte_dec_lb. reflexivity. Qed.
Lemma beqb_neq x y : x <> y -> Byte.eqb x y = false.
Proof. intros H. destruct (Byte.eqb x y) eqn:E; [|reflexivity]. apply Byte.byte_dec_bl in E. contradiction. Qed.

Lemma starts_with_crlf_false b t : b <> CR -> starts_with CRLF (b :: t) = false.
Proof.
  intros H. unfold CRLF. cbn [starts_with]. rewrite (beqb_neq CR b) by congruence. reflexivity.
Qed.

Lemma split_line l : no_crlf l -> forall rest cur fuel, (length l + length rest < fuel)%nat ->
  split_on_aux CRLF (l ++ CRLF ++ rest) cur fuel =
  (rev cur ++ l) :: split_on_aux CRLF rest [] (fuel - length l - 1).
Proof.
  induction 1 as [|b l [Hb _] _ IH]; intros rest cur fuel Hf.
  - destruct fuel as [|f]; [lia|]. unfold CRLF. cbn [app split_on_aux starts_with].
    rewrite !beqb_refl. cbn [andb length skipn].
    rewrite app_nil_r. replace (S f - 0 - 1)%nat with f by lia. reflexivity.
  - destruct fuel as [|f]; [cbn in Hf; lia|]. cbn [app]. cbn [split_on_aux].
    rewrite starts_with_crlf_false by exact Hb.
    rewrite IH by (cbn in Hf; lia). cbn [rev]. rewrite <- app_assoc. cbn [app length].
    replace (S f - S (length l) - 1)%nat with (f - length l - 1)%nat by lia. reflexivity.
Qed.

Lemma split_last l : no_crlf l -> forall cur fuel, (length l < fuel)%nat ->
  split_on_aux CRLF l cur fuel = [rev cur ++ l].
Proof.
  induction 1 as [|b l [Hb _] _ IH]; intros cur fuel Hf.
  - destruct fuel; [lia|]. cbn. rewrite app_nil_r. reflexivity.
  - destruct fuel as [|f]; [cbn in Hf; lia|]. cbn [split_on_aux].
    rewrite starts_with_crlf_false by exact Hb. rewrite IH by (cbn in Hf; lia).
    cbn [rev]. rewrite <- app_assoc. reflexivity.
Qed.

Fixpoint join_crlf (ls : list bytes) : bytes :=
  match ls with
  | [] => []
  | [l] => l
  | l :: rest => l ++ CRLF ++ join_crlf rest
  end.

Lemma split_join ls : ls <> [] -> Forall no_crlf ls -> forall fuel, (length (join_crlf ls) < fuel)%nat ->
  split_on_aux CRLF (join_crlf ls) [] fuel = ls.
Proof.
  induction ls as [|l ls IH]; intros Hne Hall fuel Hf; [contradiction|].
  inversion Hall as [|? ? Hl Hrest]; subst.
  destruct ls as [|l2 ls].
  - cbn [join_crlf]. rewrite split_last by (cbn [join_crlf] in Hf; assumption). reflexivity.
  - remember (l2 :: ls) as tl0 eqn:Et.
    assert (E : join_crlf (l :: tl0) = l ++ CRLF ++ join_crlf tl0) by (subst tl0; reflexivity).
    rewrite E in *. rewrite !app_length in Hf. change (length CRLF) with 2%nat in Hf.
    rewrite split_line; [|exact Hl|lia].
    cbn [rev app]. f_equal. apply IH; [subst tl0; discriminate|exact Hrest|lia].
Qed.

Corollary split_on_join ls : ls <> [] -> Forall no_crlf ls -> split_on CRLF (join_crlf ls) = ls.
Proof. intros H1 H2. unfold split_on. apply split_join; auto. Qed.

(* ---------- one header: its line and its obsolete-folding continuation lines ---------- *)
Record hline := { hl_name : bytes; hl_lead : bytes; hl_value : bytes; hl_trail : bytes;
                  hl_cont : list (bytes * bytes) (* continuation lines: leading blanks, text *) }.
Definition render_line (h : hline) : bytes := hl_name h ++ COLON :: hl_lead h ++ hl_value h ++ hl_trail h.
Definition render_cont (c : bytes * bytes) : bytes := fst c ++ snd c.
Definition render_lines (h : hline) : list bytes := render_line h :: map render_cont (hl_cont h).
Definition padded (h : hline) : bytes := hl_lead h ++ hl_value h ++ hl_trail h.
(* what the parser collects for this header: the first value, then a blank and the left-stripped text of every fold *)
Definition cont_frags (c : bytes * bytes) : list bytes := [[SP]; lstrip_by is_space (render_cont c)].
Definition frags (h : hline) : list bytes := [padded h] ++ flat_map cont_frags (hl_cont h).
Definition value_text (h : hline) : bytes := concat (frags h).

Definition is_ascii (b : byte) : bool := b2n b <? 128.
Definition blank (b : byte) : Prop := b = SP \/ b = HT.
(* a header-name character: ASCII, no blank or control character that counts as white space, no colon *)
Definition name_char (b : byte) : Prop := is_ascii b = true /\ is_space b = false /\ b <> COLON.
Definition value_char (b : byte) : Prop := is_ascii b = true /\ b <> CR /\ b <> LF.

Record wf_cont (c : bytes * bytes) : Prop := {
  wc_lws : fst c <> [] /\ Forall blank (fst c);
  wc_text : Forall value_char (snd c);
  wc_solid : exists b, In b (snd c) /\ is_space b = false      (* the line is not blank *)
}.
Record wf_line (h : hline) : Prop := {
  wl_name : hl_name h <> [] /\ Forall name_char (hl_name h);
  wl_lead : Forall blank (hl_lead h);
  wl_value : Forall value_char (hl_value h);
  wl_trail : Forall blank (hl_trail h);
  wl_cont : Forall wf_cont (hl_cont h)
}.

Lemma blank_space b : blank b -> is_space b = true.
Proof. intros [->| ->]; reflexivity. Qed.
Lemma blank_value_char b : blank b -> value_char b.
Proof. intros [->| ->]; repeat split; discriminate. Qed.

Lemma ascii_replace_id l : Forall (fun b => is_ascii b = true) l -> ascii_replace l = l.
Proof.
  unfold ascii_replace. induction 1 as [|b l Hb _ IH]; [reflexivity|]. cbn [map]. unfold is_ascii in Hb. rewrite Hb, IH. reflexivity.
Qed.

Lemma is_space_lower b : is_space (lower b) = is_space b.
Proof. destruct b; reflexivity. Qed.

Lemma strip_solid x : x <> [] -> Forall (fun b => is_space b = false) x -> strip x = x.
Proof.
  intros Hne H. unfold strip.
  destruct x as [|b t]; [contradiction|]. inversion H as [|? ? Hb Ht]; subst.
  rewrite (lstrip_by_head is_space (b :: t) b t eq_refl Hb).
  unfold rstrip_by.
  assert (R : Forall (fun b => is_space b = false) (rev (b :: t))) by (apply Forall_rev; exact H).
  destruct (rev (b :: t)) as [|c r] eqn:E.
  - apply (f_equal (@rev byte)) in E. rewrite rev_involutive in E. discriminate.
  - inversion R as [|? ? Hc _]; subst. rewrite (lstrip_by_head is_space (c :: r) c r eq_refl Hc).
    rewrite <- E. apply rev_involutive.
Qed.

Lemma lstrip_keeps f l b : In b l -> f b = false -> In b (lstrip_by f l).
Proof.
  induction l as [|x l IH]; intros H Hb; [contradiction|]. cbn [lstrip_by].
  destruct (f x) eqn:E; [|exact H]. destruct H as [->|H]; [congruence|]. apply IH; assumption.
Qed.
Lemma strip_nonempty x b : In b x -> is_space b = false -> strip x <> [].
Proof.
  intros H Hb. unfold strip, rstrip_by.
  assert (I : In b (rev (lstrip_by is_space (rev (lstrip_by is_space x))))).
  { apply -> in_rev. apply lstrip_keeps; [|exact Hb]. apply -> in_rev. apply lstrip_keeps; assumption. }
  intros K. rewrite K in I. contradiction.
Qed.

Lemma partition_at_found c a b : ~ In c a -> partition_at c (a ++ c :: b) = (a, true, b).
Proof.
  induction a as [|x a IH]; intros H; cbn [app partition_at].
  - rewrite beqb_refl. reflexivity.
  - rewrite beqb_neq by (intros ->; apply H; left; reflexivity).
    rewrite IH by (intros K; apply H; right; exact K). reflexivity.
Qed.

Lemma line_is_ascii h : wf_line h -> Forall (fun b => is_ascii b = true) (render_line h).
Proof.
  intros [[_ Hn] Hl Hv Ht _]. unfold render_line.
  apply Forall_app; split; [eapply Forall_impl; [|exact Hn]; intros b Hb; apply Hb|].
  constructor; [reflexivity|].
  apply Forall_app; split; [eapply Forall_impl; [|exact Hl]; intros b Hb; apply (blank_value_char b Hb)|].
  apply Forall_app; split; [eapply Forall_impl; [|exact Hv]; intros b Hb; apply Hb|].
  eapply Forall_impl; [|exact Ht]. intros b Hb. apply (blank_value_char b Hb).
Qed.

Lemma blank_no_crlf b : blank b -> b <> CR /\ b <> LF.
Proof. intros [->| ->]; split; discriminate. Qed.

Lemma line_no_crlf h : wf_line h -> no_crlf (render_line h).
Proof.
  intros [[_ Hn] Hl Hv Ht _]. unfold render_line, no_crlf.
  assert (NC : forall b, name_char b -> b <> CR /\ b <> LF).
  { intros b (_ & Hs & _). split; intros ->; discriminate Hs. }
  apply Forall_app; split; [eapply Forall_impl; [|exact Hn]; exact NC|].
  constructor; [split; discriminate|].
  apply Forall_app; split; [eapply Forall_impl; [|exact Hl]; exact blank_no_crlf|].
  apply Forall_app; split; [eapply Forall_impl; [|exact Hv]; intros b Hb; split; apply Hb|].
  eapply Forall_impl; [|exact Ht]. exact blank_no_crlf.
Qed.

Lemma cont_is_ascii c : wf_cont c -> Forall (fun b => is_ascii b = true) (render_cont c).
Proof.
  intros [[_ Hl] Ht _]. unfold render_cont. apply Forall_app; split.
  - eapply Forall_impl; [|exact Hl]. intros b Hb. apply (blank_value_char b Hb).
  - eapply Forall_impl; [|exact Ht]. intros b Hb. apply Hb.
Qed.
Lemma cont_no_crlf c : wf_cont c -> no_crlf (render_cont c).
Proof.
  intros [[_ Hl] Ht _]. unfold render_cont, no_crlf. apply Forall_app; split.
  - eapply Forall_impl; [|exact Hl]. exact blank_no_crlf.
  - eapply Forall_impl; [|exact Ht]. intros b Hb. split; apply Hb.
Qed.

Definition key_of (h : hline) : bytes := lower_s (hl_name h).
Lemma key_nonempty h : wf_line h -> exists k0 kt, key_of h = k0 :: kt.
Proof. intros [[Hne _] _ _ _ _]. unfold key_of. destruct (hl_name h); [contradiction|]. cbn. eauto. Qed.

(* what parse_header_lines does with the first line of a header *)
Lemma parse_one_line h rest cur hs : wf_line h ->
  parse_header_lines (render_line h :: rest) cur hs =
  parse_header_lines rest (Some (key_of h)) (hdr_add hs (key_of h) [padded h] true).
Proof.
  intros W. pose proof (line_is_ascii h W) as HA. destruct W as [[Hne Hn] Hl Hv Ht _].
  destruct (hl_name h) as [|n0 nt] eqn:En; [contradiction|].
  inversion Hn as [|? ? Hn0 Hnt]; subst.
  assert (S0 : strip (render_line h) <> []).
  { apply (strip_nonempty _ n0); [unfold render_line; rewrite En; left; reflexivity|apply Hn0]. }
  assert (D : partition_at COLON (render_line h) = (n0 :: nt, true, padded h)).
  { unfold render_line. rewrite En. apply partition_at_found.
    intros K. rewrite Forall_forall in Hn. destruct (Hn COLON K) as (_ & _ & C). congruence. }
  assert (EL : exists lt, render_line h = n0 :: lt) by (unfold render_line; rewrite En; eexists; reflexivity).
  assert (L0 : is_lws n0 = false).
  { destruct Hn0 as (_ & Hs & _). destruct n0; try reflexivity; discriminate Hs. }
  assert (K : strip (lower_s (n0 :: nt)) = key_of h).
  { unfold key_of. rewrite En. apply strip_solid; [discriminate|].
    unfold lower_s. apply Forall_forall. intros b Hb. apply in_map_iff in Hb as (b0 & <- & Hb0).
    rewrite is_space_lower. rewrite Forall_forall in Hn. apply (Hn b0 Hb0). }
  cbn [parse_header_lines]. rewrite (ascii_replace_id _ HA).
  remember (render_line h) as line eqn:Eline.
  destruct (strip line) as [|s0 st]; [contradiction|].
  destruct EL as (lt & EL). rewrite EL in D. rewrite EL. rewrite L0, D, K. reflexivity.
Qed.

(* ... and with a continuation line, while that header is the current one *)
Lemma parse_cont_line c rest k0 kt hs : wf_cont c ->
  parse_header_lines (render_cont c :: rest) (Some (k0 :: kt)) hs =
  parse_header_lines rest (Some (k0 :: kt)) (hdr_add hs (k0 :: kt) (cont_frags c) false).
Proof.
  intros W. pose proof (cont_is_ascii c W) as HA. destruct W as [[Hne Hl] Ht (b & Hb & Hs)].
  assert (S0 : strip (render_cont c) <> []).
  { apply (strip_nonempty _ b); [unfold render_cont; apply in_or_app; right; exact Hb|exact Hs]. }
  destruct (fst c) as [|w0 wt] eqn:Ew; [contradiction|]. inversion Hl as [|? ? Hw0 _]; subst.
  assert (EL : render_cont c = w0 :: wt ++ snd c) by (unfold render_cont; rewrite Ew; reflexivity).
  assert (L0 : is_lws w0 = true) by (destruct Hw0 as [->| ->]; reflexivity).
  cbn [parse_header_lines]. rewrite (ascii_replace_id _ HA).
  unfold cont_frags, lstrip.
  remember (render_cont c) as line eqn:Eline.
  destruct (strip line) as [|s0 st]; [contradiction|].
  rewrite EL. rewrite L0. reflexivity.
Qed.

Lemma parse_blank_tail cur hs : parse_header_lines [[]; []] cur hs = hs.
Proof. reflexivity. Qed.

Definition add_conts (k : bytes) (acc : list (bytes * list bytes)) (cs : list (bytes * bytes)) :=
  fold_left (fun a c => hdr_add a k (cont_frags c) false) cs acc.
Definition add_line (acc : list (bytes * list bytes)) (h : hline) :=
  add_conts (key_of h) (hdr_add acc (key_of h) [padded h] true) (hl_cont h).

Lemma parse_conts cs : Forall wf_cont cs -> forall rest k0 kt hs,
  parse_header_lines (map render_cont cs ++ rest) (Some (k0 :: kt)) hs =
  parse_header_lines rest (Some (k0 :: kt)) (add_conts (k0 :: kt) hs cs).
Proof.
  induction 1 as [|c cs Hc _ IH]; intros rest k0 kt hs; [reflexivity|].
  cbn [map app]. rewrite parse_cont_line by exact Hc. rewrite IH. reflexivity.
Qed.

Lemma parse_header h rest cur hs : wf_line h ->
  parse_header_lines (render_lines h ++ rest) cur hs = parse_header_lines rest (Some (key_of h)) (add_line hs h).
Proof.
  intros W. unfold render_lines. cbn [app]. rewrite parse_one_line by exact W.
  destruct (key_nonempty h W) as (k0 & kt & Ek). unfold add_line. rewrite Ek.
  apply parse_conts. apply W.
Qed.

Lemma parse_lines ls : Forall wf_line ls -> forall cur hs,
  parse_header_lines (flat_map render_lines ls ++ [[]; []]) cur hs = fold_left add_line ls hs.
Proof.
  induction 1 as [|h ls Hh _ IH]; intros cur hs; [apply parse_blank_tail|].
  cbn [flat_map fold_left]. rewrite <- app_assoc. rewrite parse_header by exact Hh. apply IH.
Qed.

(* ---------- the table of headers ---------- *)
Lemma hdr_add_absent hs k fr m : ~ In k (map fst hs) -> hdr_add hs k fr m = hs ++ [(k, fr)].
Proof.
  induction hs as [|[n v] hs IH]; intros H; [reflexivity|].
  cbn [hdr_add]. destruct (bytes_eqb n k) eqn:E.
  - apply bytes_eqb_eq in E. subst. exfalso. apply H. left. reflexivity.
  - rewrite IH by (intros K; apply H; right; exact K). reflexivity.
Qed.

Lemma hdr_add_last hs k v fr : ~ In k (map fst hs) -> hdr_add (hs ++ [(k, v)]) k fr false = hs ++ [(k, v ++ fr)].
Proof.
  induction hs as [|[n w] hs IH]; intros H.
  - cbn. rewrite (proj2 (bytes_eqb_eq k k) eq_refl). reflexivity.
  - cbn [app hdr_add]. destruct (bytes_eqb n k) eqn:E.
    + apply bytes_eqb_eq in E. subst. exfalso. apply H. left. reflexivity.
    + rewrite IH by (intros K; apply H; right; exact K). reflexivity.
Qed.

Lemma add_conts_last cs : forall hs k v, ~ In k (map fst hs) ->
  add_conts k (hs ++ [(k, v)]) cs = hs ++ [(k, v ++ flat_map cont_frags cs)].
Proof.
  induction cs as [|c cs IH]; intros hs k v H; [cbn; rewrite app_nil_r; reflexivity|].
  unfold add_conts. cbn [fold_left]. rewrite hdr_add_last by exact H.
  fold (add_conts k (hs ++ [(k, v ++ cont_frags c)]) cs). rewrite IH by exact H.
  cbn [flat_map]. rewrite <- app_assoc. reflexivity.
Qed.

Lemma add_line_absent hs h : ~ In (key_of h) (map fst hs) -> add_line hs h = hs ++ [(key_of h, frags h)].
Proof.
  intros H. unfold add_line. rewrite hdr_add_absent by exact H. rewrite add_conts_last by exact H. reflexivity.
Qed.

Lemma fold_add_distinct ls : forall hs, NoDup (map fst hs ++ map key_of ls) ->
  fold_left add_line ls hs = hs ++ map (fun h => (key_of h, frags h)) ls.
Proof.
  induction ls as [|h ls IH]; intros hs ND; [cbn; rewrite app_nil_r; reflexivity|].
  cbn [fold_left map].
  rewrite add_line_absent.
  2:{ intros K. apply NoDup_remove_2 in ND. apply ND. apply in_or_app. left. exact K. }
  rewrite IH.
  - rewrite <- app_assoc. reflexivity.
  - rewrite map_app. cbn [map fst]. rewrite <- app_assoc. cbn [app].
    apply NoDup_remove in ND as [ND1 ND2].
    apply NoDup_Add with (a := key_of h) (l := map fst hs ++ map key_of ls); [apply Add_app|split; assumption].
Qed.

Lemma find_key l k v : NoDup (map fst l) -> In (k, v) l ->
  find (fun p : bytes * list bytes => bytes_eqb (fst p) k) l = Some (k, v).
Proof.
  induction l as [|[n w] l IH]; intros ND H; [contradiction|].
  cbn [find fst]. destruct (bytes_eqb n k) eqn:E.
  - apply bytes_eqb_eq in E. subst n. destruct H as [H|H]; [congruence|].
    exfalso. inversion ND as [|? ? Hn _]; subst. apply Hn. apply in_map_iff. exists (k, v). split; [reflexivity|exact H].
  - destruct H as [H|H]; [inversion H; subst; rewrite (proj2 (bytes_eqb_eq k k) eq_refl) in E; discriminate|].
    inversion ND; subst. apply IH; assumption.
Qed.

(* an unfolded header: the value is the one written, blanks stripped *)
Lemma value_text_unfolded h : wf_line h -> hl_cont h = [] -> strip (value_text h) = strip (hl_value h).
Proof.
  intros W E. unfold value_text, frags. rewrite E. cbn [flat_map app concat]. rewrite app_nil_r.
  unfold padded. apply strip_pad.
  - destruct W as [_ L _ _ _]. eapply Forall_impl; [|exact L]. exact blank_space.
  - destruct W as [_ _ _ T _]. eapply Forall_impl; [|exact T]. exact blank_space.
Qed.

(* ---------- the status line ---------- *)
Lemma digits_val_is_parse_dec l : forall acc, digits_val l acc = parse_dec_acc acc l.
Proof. induction l as [|b l IH]; intros acc; [reflexivity|]. cbn. destruct (is_digit b); [apply IH|reflexivity]. Qed.
Lemma parse_int_is_parse_dec l : parse_int l = parse_dec l.
Proof. destruct l; [reflexivity|]. unfold parse_int, parse_dec. apply digits_val_is_parse_dec. Qed.

Lemma take_token_stop tok rest : Forall (fun b => is_bspace b = false) tok ->
  take_token (tok ++ SP :: rest) = (tok, SP :: rest).
Proof.
  induction 1 as [|b tok Hb _ IH]; [reflexivity|]. cbn [app take_token]. rewrite Hb, IH. reflexivity.
Qed.

Lemma digit_not_bspace b : is_digit b = true -> is_bspace b = false.
Proof. destruct b; intros H; try discriminate H; reflexivity. Qed.

Lemma lstrip_solid_head f tok rest : tok <> [] -> Forall (fun b => f b = false) tok -> lstrip_by f (tok ++ rest) = tok ++ rest.
Proof.
  intros Hne F. destruct tok as [|b t]; [contradiction|]. inversion F as [|? ? Hb _]; subst.
  cbn [app lstrip_by]. rewrite Hb. reflexivity.
Qed.

Lemma status_tokens version dec reason :
  version <> [] -> Forall (fun b => is_bspace b = false) version ->
  dec <> [] -> Forall (fun b => is_digit b = true) dec ->
  nth 1 (split_ws_2 (version ++ SP :: dec ++ SP :: reason)) [] = dec.
Proof.
  intros Hv Fv Hd Fd.
  assert (Fd' : Forall (fun b => is_bspace b = false) dec).
  { eapply Forall_impl; [|exact Fd]. intros b Hb. apply digit_not_bspace. exact Hb. }
  unfold split_ws_2.
  rewrite (lstrip_solid_head is_bspace version _ Hv Fv).
  assert (N1 : version ++ SP :: dec ++ SP :: reason <> []) by (destruct version; [contradiction|discriminate]).
  destruct (version ++ SP :: dec ++ SP :: reason) as [|x0 xt] eqn:EX; [contradiction|]. rewrite <- EX. clear EX N1 x0 xt.
  rewrite take_token_stop by exact Fv.
  cbn [lstrip_by]. change (is_bspace SP) with true. cbv iota.
  rewrite (lstrip_solid_head is_bspace dec _ Hd Fd').
  assert (N2 : dec ++ SP :: reason <> []) by (destruct dec; [contradiction|discriminate]).
  destruct (dec ++ SP :: reason) as [|y0 yt] eqn:EY; [contradiction|]. rewrite <- EY. clear EY N2 y0 yt.
  rewrite take_token_stop by exact Fd'.
  destruct (lstrip_by is_bspace (SP :: reason)); reflexivity.
Qed.

(* ---------- the whole reply ---------- *)
Record reply := { rp_version : bytes; rp_code : N; rp_reason : bytes; rp_lines : list hline }.
Definition status_line (r : reply) : bytes := rp_version r ++ SP :: decimal (rp_code r) ++ SP :: rp_reason r.
Definition render_reply (r : reply) : bytes := join_crlf (status_line r :: flat_map render_lines (rp_lines r) ++ [[]; []]).

Record wf_reply (r : reply) : Prop := {
  wr_version : rp_version r <> [] /\ Forall (fun b => is_bspace b = false) (rp_version r);
  wr_code : rp_code r <= 65535;
  wr_reason : no_crlf (rp_reason r);
  wr_lines : Forall wf_line (rp_lines r);
  wr_distinct : NoDup (map key_of (rp_lines r))
}.

Lemma bspace_crlf b : is_bspace b = false -> b <> CR /\ b <> LF.
Proof. intros H. split; intros ->; discriminate H. Qed.

Lemma reply_lines r : wf_reply r ->
  split_on CRLF (render_reply r) = status_line r :: flat_map render_lines (rp_lines r) ++ [[]; []].
Proof.
  intros [[_ Fv] Hc Hr Hl _]. unfold render_reply. apply split_on_join; [discriminate|].
  constructor.
  - unfold status_line, no_crlf. apply Forall_app; split; [eapply Forall_impl; [|exact Fv]; exact bspace_crlf|].
    constructor; [split; discriminate|].
    apply Forall_app; split.
    + destruct (decimal_digits _ Hc) as [Fd _]. eapply Forall_impl; [|exact Fd].
      intros b Hb. apply bspace_crlf. apply digit_not_bspace. exact Hb.
    + constructor; [split; discriminate|exact Hr].
  - apply Forall_app; split.
    + apply Forall_forall. intros l Hin. apply in_flat_map in Hin as (h & Hh & Hin).
      rewrite Forall_forall in Hl. specialize (Hl h Hh). destruct Hin as [<-|Hin]; [apply line_no_crlf; exact Hl|].
      apply in_map_iff in Hin as (c & <- & Hc'). apply cont_no_crlf.
      destruct Hl as [_ _ _ _ Wc]. rewrite Forall_forall in Wc. apply Wc. exact Hc'.
    + repeat constructor.
Qed.

(* the reply parser inverts the rendering *)
Theorem parse_rendered_reply r : wf_reply r ->
  r_status (parse_response (render_reply r)) = Some (rp_code r) /\
  (forall h q, In h (rp_lines r) -> lower_s q = key_of h ->
     resp_get (parse_response (render_reply r)) q = Some (strip (value_text h))) /\
  (forall q, ~ In (lower_s q) (map key_of (rp_lines r)) -> resp_get (parse_response (render_reply r)) q = None).
Proof.
  intros W. pose proof (reply_lines r W) as HL. destruct W as [[Hv Fv] Hc Hr Hl ND].
  unfold parse_response. rewrite HL. cbn [hd tl nth r_status r_headers].
  split; [|split].
  - destruct (decimal_digits _ Hc) as [Fd Hd].
    unfold status_line. rewrite status_tokens by assumption.
    rewrite parse_int_is_parse_dec. apply parse_decimal. exact Hc.
  - intros h q Hin Hq. unfold resp_get. cbn [r_headers].
    rewrite parse_lines by exact Hl. rewrite fold_add_distinct by (cbn [map app]; exact ND). cbn [app].
    rewrite Hq.
    rewrite (find_key _ (key_of h) (frags h)).
    + reflexivity.
    + rewrite map_map. cbn [fst]. exact ND.
    + apply in_map_iff. exists h. split; [reflexivity|exact Hin].
  - intros q Hq. unfold resp_get. cbn [r_headers].
    rewrite parse_lines by exact Hl. rewrite fold_add_distinct by (cbn [map app]; exact ND). cbn [app].
    destruct (find _ _) as [[k v]|] eqn:E; [|reflexivity].
    exfalso. apply find_some in E as [E1 E2]. cbn [fst] in E2. apply bytes_eqb_eq in E2. subst k.
    apply Hq. apply in_map_iff in E1 as (h & Eh & Hin). inversion Eh; subst. apply in_map_iff. exists h. split; [congruence|exact Hin].
Qed.

(* order does not matter: two replies whose headers are permutations of each other are read alike *)
Corollary reply_order_irrelevant r r' : wf_reply r -> wf_reply r' ->
  rp_code r = rp_code r' -> (forall h, In h (rp_lines r) <-> In h (rp_lines r')) ->
  r_status (parse_response (render_reply r)) = r_status (parse_response (render_reply r')) /\
  forall q, resp_get (parse_response (render_reply r)) q = resp_get (parse_response (render_reply r')) q.
Proof.
  intros W W' Hc Hp.
  destruct (parse_rendered_reply r W) as (S & G & N). destruct (parse_rendered_reply r' W') as (S' & G' & N').
  split; [congruence|]. intros q.
  destruct (in_dec (list_eq_dec Byte.byte_eq_dec) (lower_s q) (map key_of (rp_lines r))) as [I|I].
  - apply in_map_iff in I as (h & Eh & Hin). rewrite (G h q Hin (eq_sym Eh)).
    rewrite (G' h q (proj1 (Hp h) Hin) (eq_sym Eh)). reflexivity.
  - rewrite (N q I). symmetry. apply N'. intros K. apply I.
    apply in_map_iff in K as (h & Eh & Hin). apply in_map_iff. exists h. split; [exact Eh|apply Hp; exact Hin].
Qed.

(* the handshake decision reads the reply only through its status and resp_get *)
Lemma on_response_ext accept r r' :
  r_status r = r_status r' -> (forall q, resp_get r q = resp_get r' q) -> on_response accept r = on_response accept r'.
Proof.
  intros Hs Hg. unfold on_response, resp_get_list. rewrite Hs, !Hg. reflexivity.
Qed.

(* ... hence it depends on the SET of headers, not on their order *)
Theorem decision_rendering_independent accept r r' : wf_reply r -> wf_reply r' ->
  rp_code r = rp_code r' -> (forall h, In h (rp_lines r) <-> In h (rp_lines r')) ->
  on_response accept (parse_response (render_reply r)) = on_response accept (parse_response (render_reply r')).
Proof.
  intros W W' Hc Hp. destruct (reply_order_irrelevant r r' W W' Hc Hp) as [S G]. apply on_response_ext; assumption.
Qed.

(* the same header with its name in another letter case, other blanks around the value, folded at other places *)
Definition same_header (h h' : hline) : Prop := key_of h = key_of h' /\ strip (value_text h) = strip (value_text h').

Theorem decision_spelling_independent accept r r' : wf_reply r -> wf_reply r' ->
  rp_code r = rp_code r' ->
  (forall h, In h (rp_lines r) -> exists h', In h' (rp_lines r') /\ same_header h h') ->
  (forall h', In h' (rp_lines r') -> exists h, In h (rp_lines r) /\ same_header h h') ->
  on_response accept (parse_response (render_reply r)) = on_response accept (parse_response (render_reply r')).
Proof.
  intros W W' Hc H1 H2.
  destruct (parse_rendered_reply r W) as (S & G & N). destruct (parse_rendered_reply r' W') as (S' & G' & N').
  apply on_response_ext; [congruence|]. intros q.
  destruct (in_dec (list_eq_dec Byte.byte_eq_dec) (lower_s q) (map key_of (rp_lines r))) as [I|I].
  - apply in_map_iff in I as (h & Eh & Hin). rewrite (G h q Hin (eq_sym Eh)).
    destruct (H1 h Hin) as (h' & Hin' & Ek & Ev). rewrite (G' h' q Hin' (eq_trans (eq_sym Eh) Ek)). congruence.
  - rewrite (N q I). symmetry. apply N'. intros K. apply I.
    apply in_map_iff in K as (h' & Eh & Hin'). destruct (H2 h' Hin') as (h & Hin & Ek & _).
    apply in_map_iff. exists h. split; [congruence|exact Hin].
Qed.

(* folding a value at a blank does not change what is read: "a b" on one line, and "a" continued by " b" *)
Example folding_example :
  let one := {| hl_name := str "Upgrade"%string; hl_lead := [SP]; hl_value := str "web socket"%string; hl_trail := []; hl_cont := [] |} in
  let two := {| hl_name := str "UPGRADE"%string; hl_lead := []; hl_value := str "web"%string; hl_trail := [];
                hl_cont := [([SP; HT], str "socket"%string)] |} in
  same_header one two.
Proof. vm_compute. split; reflexivity. Qed.

(* ---------- repeated headers ---------- *)
(* what the table holds for key k after a header has been added *)
Definition found (k : bytes) (hs : list (bytes * list bytes)) : option (list bytes) :=
  match find (fun p => bytes_eqb (fst p) k) hs with Some (_, v) => Some v | None => None end.

Lemma bytes_eqb_sym a b : bytes_eqb a b = bytes_eqb b a.
Proof.
  destruct (bytes_eqb a b) eqn:E1, (bytes_eqb b a) eqn:E2; try reflexivity.
  - apply bytes_eqb_eq in E1. subst. rewrite (proj2 (bytes_eqb_eq b b) eq_refl) in E2. discriminate.
  - apply bytes_eqb_eq in E2. subst. rewrite (proj2 (bytes_eqb_eq a a) eq_refl) in E1. discriminate.
Qed.

Lemma found_hdr_add hs k k' fr m :
  found k (hdr_add hs k' fr m) =
  if bytes_eqb k' k then Some (match found k hs with Some v => v ++ (if m then [[x2c]] else []) ++ fr | None => fr end)
  else found k hs.
Proof.
  unfold found. induction hs as [|[n v] hs IH]; cbn [hdr_add find fst].
  - destruct (bytes_eqb k' k); reflexivity.
  - destruct (bytes_eqb n k') eqn:E1.
    + apply bytes_eqb_eq in E1. subst n. cbn [find fst]. destruct (bytes_eqb k' k); reflexivity.
    + cbn [find fst]. destruct (bytes_eqb n k) eqn:E2.
      * apply bytes_eqb_eq in E2. subst n. rewrite (bytes_eqb_sym k' k), E1. reflexivity.
      * exact IH.
Qed.

Lemma found_add_conts cs : forall hs k k',
  found k (add_conts k' hs cs) =
  if bytes_eqb k' k then (match cs with [] => found k hs | _ => Some (match found k hs with Some v => v | None => [] end ++ flat_map cont_frags cs) end)
  else found k hs.
Proof.
  induction cs as [|c cs IH]; intros hs k k'; [cbn; destruct (bytes_eqb k' k); reflexivity|].
  unfold add_conts. cbn [fold_left]. fold (add_conts k' (hdr_add hs k' (cont_frags c) false) cs).
  rewrite IH, found_hdr_add. destruct (bytes_eqb k' k) eqn:E; [|reflexivity].
  cbn [app flat_map]. destruct cs as [|c2 cs].
  - cbn [flat_map]. rewrite app_nil_r. destruct (found k hs); reflexivity.
  - destruct (found k hs); cbn [app]; rewrite <- ?app_assoc; reflexivity.
Qed.

(* the fragments collected for key k by a list of headers: later headers of the same name are appended behind a comma *)
Fixpoint collect (k : bytes) (ls : list hline) (acc : option (list bytes)) : option (list bytes) :=
  match ls with
  | [] => acc
  | h :: rest =>
      if bytes_eqb (key_of h) k
      then collect k rest (Some (match acc with Some v => v ++ [[x2c]] ++ frags h | None => frags h end))
      else collect k rest acc
  end.

Lemma found_add_line hs h k :
  found k (add_line hs h) =
  if bytes_eqb (key_of h) k then Some (match found k hs with Some v => v ++ [[x2c]] ++ frags h | None => frags h end)
  else found k hs.
Proof.
  unfold add_line. rewrite found_add_conts, found_hdr_add. destruct (bytes_eqb (key_of h) k); [|reflexivity].
  unfold frags. destruct (hl_cont h) as [|c cs].
  - cbn [flat_map]. rewrite !app_nil_r. destruct (found k hs); reflexivity.
  - destruct (found k hs); cbn [app]; rewrite <- ?app_assoc; reflexivity.
Qed.

Lemma found_fold ls : forall hs k, found k (fold_left add_line ls hs) = collect k ls (found k hs).
Proof.
  induction ls as [|h ls IH]; intros hs k; [reflexivity|].
  cbn [fold_left collect]. rewrite IH, found_add_line. destruct (bytes_eqb (key_of h) k); reflexivity.
Qed.

(* replies whose headers may repeat *)
Record wf_reply_dup (r : reply) : Prop := {
  wd_version : rp_version r <> [] /\ Forall (fun b => is_bspace b = false) (rp_version r);
  wd_code : rp_code r <= 65535;
  wd_reason : no_crlf (rp_reason r);
  wd_lines : Forall wf_line (rp_lines r)
}.

Theorem parse_rendered_reply_dup r : wf_reply_dup r ->
  r_status (parse_response (render_reply r)) = Some (rp_code r) /\
  forall q, resp_get (parse_response (render_reply r)) q =
            match collect (lower_s q) (rp_lines r) None with Some fr => Some (strip (concat fr)) | None => None end.
Proof.
  intros [[Hv Fv] Hc Hr Hl].
  assert (HL : split_on CRLF (render_reply r) = status_line r :: flat_map render_lines (rp_lines r) ++ [[]; []]).
  { unfold render_reply. apply split_on_join; [discriminate|].
    constructor.
    - unfold status_line, no_crlf. apply Forall_app; split; [eapply Forall_impl; [|exact Fv]; exact bspace_crlf|].
      constructor; [split; discriminate|].
      apply Forall_app; split.
      + destruct (decimal_digits _ Hc) as [Fd _]. eapply Forall_impl; [|exact Fd].
        intros b Hb. apply bspace_crlf. apply digit_not_bspace. exact Hb.
      + constructor; [split; discriminate|exact Hr].
    - apply Forall_app; split.
      + apply Forall_forall. intros l Hin. apply in_flat_map in Hin as (h & Hh & Hin).
        rewrite Forall_forall in Hl. specialize (Hl h Hh). destruct Hin as [<-|Hin]; [apply line_no_crlf; exact Hl|].
        apply in_map_iff in Hin as (c & <- & Hc'). apply cont_no_crlf.
        destruct Hl as [_ _ _ _ Wc]. rewrite Forall_forall in Wc. apply Wc. exact Hc'.
      + repeat constructor. }
  unfold parse_response. rewrite HL. cbn [hd tl nth r_status r_headers]. split.
  - destruct (decimal_digits _ Hc) as [Fd Hd].
    unfold status_line. rewrite status_tokens by assumption.
    rewrite parse_int_is_parse_dec. apply parse_decimal. exact Hc.
  - intros q. unfold resp_get. cbn [r_headers]. rewrite parse_lines by exact Hl.
    pose proof (found_fold (rp_lines r) [] (lower_s q)) as F. unfold found in F at 1. cbn [found find] in F.
    destruct (find _ (fold_left add_line (rp_lines r) [])) as [[k v]|]; rewrite <- F; reflexivity.
Qed.

(* a header sent twice is read as the two values joined by a comma *)
Example repeated_header_example :
  let a := {| hl_name := str "Sec-WebSocket-Extensions"%string; hl_lead := [SP]; hl_value := str "foo"%string; hl_trail := []; hl_cont := [] |} in
  let b := {| hl_name := str "sec-websocket-extensions"%string; hl_lead := []; hl_value := str "permessage-deflate"%string; hl_trail := [SP]; hl_cont := [] |} in
  match collect (str "sec-websocket-extensions"%string) [a; b] None with
  | Some fr => strip (concat fr) = str "foo,permessage-deflate"%string
  | None => False
  end.
Proof. vm_compute. reflexivity. Qed.
