(* C18 joined with C02 and C01: what the read side hands to WebSocket.feed before it blocks again is, for the client, the same
   as everything that was available in one piece; so every message whose last byte was available has been delivered. *)
From Coq Require Import List NArith ZArith Lia Bool.
From Coq.Strings Require Import Byte.
From Model Require Import Bytes Utf8 Frame Parser FrameParser Response Conn Transport.
From Proofs Require Import ParserFacts FrameParserFacts ConnFacts TransportFacts DeliveryFacts.
Import ListNotations.
Open Scope N_scope.

(* draining keeps the transport well formed (no empty record in the queue) *)
Lemma drain_well_formed fuel : forall t, well_formed t -> well_formed (snd (drain fuel t)).
Proof.
  induction fuel as [|f IH]; intros t Hwf; [exact Hwf|].
  cbn [drain]. pose proof Hwf as (Hne & Hpl & Hra).
  destruct (wait t) as [n|] eqn:Ew; [|exact Hwf].
  assert (Hav : available t <> []).
  { intros E. apply (wait_blocks_iff_nothing_available t Hne) in E. congruence. }
  assert (Hn : 0 < N.min n BUFFER_SIZE).
  { unfold wait in Ew. destruct (t_pending t) as [|b p]; [destruct (t_kernel t); inversion Ew; subst; reflexivity|].
    inversion Ew; subst. unfold blen, BUFFER_SIZE. cbn [length]. lia. }
  pose proof (recv_spec t (N.min n BUFFER_SIZE) Hwf Hn Hav) as Hr.
  destruct (recv t (N.min n BUFFER_SIZE)) as [chunk t1]. destruct Hr as (E1 & E2 & E3 & Hwf1).
  destruct chunk as [|b0 ch]; [exact Hwf1|].
  specialize (IH t1 Hwf1). destruct (drain f t1) as [rest t2]. exact IH.
Qed.

Section WithCfg.
  Variable cf : cfg.
  Variable app : strategy.

  Theorem drained_chunks_feed_like_everything_available t c : well_formed t -> fp_ok (k_ps c) ->
    feed_chunks cf app c (fst (drain_all t)) = feedf cf app c (available t) /\ wait (snd (drain_all t)) = None.
  Proof.
    intros Hw Hok. pose proof (drain_all_delivers_everything t Hw) as H.
    pose proof (drain_well_formed (S (total t)) t Hw) as Hwf'. fold (drain_all t) in Hwf'.
    destruct (drain_all t) as [chunks t']. destruct H as (H1 & H2 & _). cbn [fst snd] in *.
    split; [rewrite (feed_chunks_concat cf app chunks c Hok), H1; reflexivity|].
    destruct Hwf' as (Hne' & _ & _). apply (wait_blocks_iff_nothing_available t' Hne'). exact H2.
  Qed.

  (* when what is available is a conforming frame sequence (any fragmentation, any length form, however it is spread over
     TCP segments or TLS records, plain or TLS with or without read-ahead): all its messages are delivered, and all the Pongs
     it calls for are written, before the loop waits in the selector again *)
  Theorem available_messages_delivered_before_blocking :
    benign app -> zpos (c_ping_timeout cf) = None ->
    forall t c open fs lfs ms open', well_formed t ->
    idle c open -> data_head open -> Forall plain fs -> forms_ok fs lfs ->
    ref_messages open fs = Some (ms, open') -> available t = encode_all fs lfs ->
    exists c', feed_chunks cf app c (fst (drain_all t)) = (c', SOk) /\ wait (snd (drain_all t)) = None /\
               msg_events (k_tr c') = rev (map ev_of ms) ++ msg_events (k_tr c) /\ wfacts cf c c' ms.
  Proof.
    intros Hb Hz t c open fs lfs ms open' Hw Hi Hd Hp Hf Href Hav.
    destruct (drained_chunks_feed_like_everything_available t c Hw (idle_ok c open Hi)) as [F W].
    destruct (deliver_frames cf app Hb Hz fs lfs c open ms open' Hi Hd Hp Hf Href) as (c' & E & _ & _ & M & _ & Wf).
    exists c'. rewrite F, Hav. auto.
  Qed.
End WithCfg.
