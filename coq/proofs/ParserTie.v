(* (T1) What the live ClientFrameParser makes of a frame header -- every first byte (FIN, RSV1-3, opcode) x the three
   length forms at their boundaries (minimal and not), lengths up to and beyond 2^63, a masked frame -- with compression
   on and off, with and without an open text message, and of 64 KiB frames of the data opcodes (coq/gen/GenParser.v,
   obtained by EXECUTING the parser of /repo) is what the model's frame parser makes of the same bytes. *)
From Coq Require Import List NArith Bool.
From Coq.Strings Require Import Byte.
From Model Require Import Bytes Utf8 Frame Parser FrameParser.
From Gen Require Import GenParser.
Import ListNotations.
Open Scope N_scope.

Definition between_frames (compression is_text : bool) : fpst :=
  {| pg := {| fp_phase := FHdr; fp_is_text := is_text; fp_u := UAcc; fp_compression := compression |};
     paw := AwBytes false; prem := 2; pbuf := [] |}.

Definition bit (b : bool) : N := if b then 1 else 0.

Definition model_outcome (compression is_text : bool) (data : bytes) : list N :=
  match fp_pull (between_frames compression is_text) data with
  | NeedMore _ => [0]
  | Item (IFrame f) _ rest =>
      [1; bit (f_fin f); 4 * bit (f_rsv1 f) + 2 * bit (f_rsv2 f) + bit (f_rsv3 f); f_op f; blen (f_payload f);
       match rest with [] => 1 | _ => 99 end]
  | Item (IHeader _) _ _ => [98]
  | Err PE_Protocol => [2]
  | Err _ => [3]
  end.

Definition list_N_eqb (a b : list N) : bool := Nat.eqb (length a) (length b) && forallb (fun p => fst p =? snd p) (combine a b).

Definition row_ok (row : N * N * list N * N * list N) : bool :=
  let '(comp, is_text, hdr, npay, outcome) := row in
  list_N_eqb (model_outcome (negb (comp =? 0)) (negb (is_text =? 0)) (map n2b hdr ++ repeat x00 (N.to_nat npay))) outcome.

Theorem impl_parser_is_model : forallb row_ok impl_parser_rows = true.
Proof. vm_compute. reflexivity. Qed.

(* the table covers every first header byte in each of the four parser states *)
Theorem impl_parser_covers_all_first_bytes :
  forallb (fun st => forallb (fun b0 =>
     existsb (fun row => let '(comp, is_text, hdr, _, _) := row in
                         (comp =? fst st) && (is_text =? snd st) && (hd 999 hdr =? b0)) impl_parser_rows)
     (map N.of_nat (seq 0 256))) [(0, 0); (0, 1); (1, 0); (1, 1)] = true.
Proof. vm_compute. reflexivity. Qed.
