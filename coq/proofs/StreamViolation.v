(* C04 for a whole stream: a conforming prefix is delivered, then the frame that breaks the fragmentation discipline
   yields exactly one ProtocolError, fails the feed and nothing of it or after it is delivered. *)
From Coq Require Import List NArith ZArith Arith Lia Bool.
From Coq.Strings Require Import Byte.
From RecordUpdate Require Import RecordSet.
From Model Require Import Bytes Utf8 Frame Parser FrameParser Response Conn.
From Proofs Require Import BytesFacts ParserFacts FrameParserFacts FrameFacts ConnFacts ApiFacts TraceFacts ViolationFacts ShapeFacts DeliveryFacts.
Import ListNotations RecordSetNotations.
Open Scope N_scope.

(* ProtocolError events of a trace, most recent first *)
Fixpoint perrors (tr : list titem) : list bool :=
  match tr with
  | [] => []
  | TEv (EvProtocolError critical) :: r => critical :: perrors r
  | _ :: r => perrors r
  end.

Definition nope (x : titem) : Prop := match x with TEv (EvProtocolError _) => False | _ => True end.

Lemma perrors_nope l : Forall nope l -> forall tr, perrors (l ++ tr) = perrors tr.
Proof.
  induction 1 as [|x l Hx _ IH]; intros tr; [reflexivity|].
  destruct x as [e| | | | | | | | | |]; cbn [List.app perrors]; try apply IH. destruct e; try apply IH. contradiction.
Qed.
Lemma housekeeping_nope x : housekeeping x -> nope x.
Proof. destruct x as [e| | | | | | | | | |]; cbn; auto. destruct e; cbn; auto. Qed.
Lemma not_event_nope x : not_event x -> nope x.
Proof. destruct x; cbn; auto. contradiction. Qed.
Lemma housekeeping_no_msg l : Forall housekeeping l -> forall tr, msg_events (l ++ tr) = msg_events tr.
Proof.
  induction 1 as [|x l Hx _ IH]; intros tr; [reflexivity|].
  destruct x as [e| | | | | | | | | |]; cbn [List.app msg_events]; try apply IH.
  destruct e; cbn in Hx; try contradiction; cbn [is_msg_ev]; apply IH.
Qed.

Ltac np_inst L := ext_inst L nope.

Section NoError.
  Variable cf : cfg.
  Variable app : strategy.

  Lemma np_regular c : ext_by nope c (fst (regular cf app c)).
  Proof. eapply ext_weaken; [exact housekeeping_nope|apply ext_regular]. Qed.
  Lemma np_feed_yield c e post : nope (TEv e) -> (forall c1, ext_by nope c1 (fst (post c1))) ->
    ext_by nope c (fst (feed_yield cf app c e post)).
  Proof. intros He Hp. np_inst fr_feed_yield; auto. Qed.
  Lemma np_build_message c frames : ext_by nope c (fst (build_message c frames)).
  Proof. np_inst fr_build_message. Qed.
  Lemma np_ws_close c code reason : ext_by nope c (fst (ws_close c code reason)).
  Proof. eapply ext_weaken; [exact not_event_nope|apply ext_ws_close]. Qed.
  Lemma np_on_disconnect c : ext_by nope c (on_disconnect c).
  Proof. eapply ext_weaken; [exact not_event_nope|apply ext_on_disconnect]. Qed.

  (* the only source of ProtocolError events is the error path, and that path never returns normally *)
  Lemma np_on_message c m : snd (fst (on_message cf app c m)) = SOk -> ext_by nope c (fst (fst (on_message cf app c m))).
  Proof.
    intros Hok.
    assert (Y : forall e post, nope (TEv e) -> (forall c1, ext_by nope c1 (fst (post c1))) ->
              ext_by nope c (fst (fst (let '(c1, st) := feed_yield cf app c e post in (c1, st, FContinue))))).
    { intros e post He Hp. pose proof (np_feed_yield c e post He Hp) as H. destruct (feed_yield cf app c e post). exact H. }
    destruct m; unfold on_message in *; try (apply Y; [exact I|intros; apply ext_refl]).
    - destruct (match code with Some n => invalid_close_code n | None => false end).
      + exfalso. pose proof (raise_in_feed_not_ok cf app c MProtocol) as H. destruct (raise_in_feed cf app c MProtocol). cbn in *. congruence.
      + destruct (k_closed c); [apply ext_refl|]. destruct (k_closing c).
        * apply Y; [exact I|]. intros c1. cbn [fst]. apply ext_field. reflexivity.
        * apply Y; [exact I|]. intros c1. cbn [fst]. eapply ext_trans; [apply np_ws_close|apply ext_field; reflexivity].
    - apply ext_refl.
  Qed.

  Lemma np_on_item c x : snd (fst (on_item cf app c x)) = SOk -> ext_by nope c (fst (fst (on_item cf app c x))).
  Proof.
    intros Hok. unfold on_item in *. destruct x as [data|f].
    - destruct (on_response (c_accept cf) (parse_response data)) as [proto d|].
      + match goal with |- context [feed_yield cf app ?c0 ?e ?post] =>
          pose proof (np_feed_yield c0 e post I ltac:(intros; apply ext_refl)) as H;
          destruct (feed_yield cf app c0 e post) as [c2 st]; cbn [fst] in * end.
        eapply ext_trans; [|exact H]. destruct d; apply ext_field; reflexivity.
      + match goal with |- context [feed_yield cf app ?c0 ?e ?post] =>
          pose proof (np_feed_yield c0 e post I ltac:(intros; apply ext_refl)) as H;
          destruct (feed_yield cf app c0 e post) as [c2 st]; cbn [fst] in * end.
        eapply ext_trans; [apply np_on_disconnect|exact H].
    - pose proof (fr_stream_frame (ext_by nope) (ext_refl nope)) as Hs0.
      specialize (Hs0 ltac:(intros; apply ext_field; reflexivity) c f).
      destruct (stream_frame c f) as [c1|c1 frames|].
      + exact Hs0.
      + pose proof (np_build_message c1 frames) as Hb. destruct (build_message c1 frames) as [c2 r]. cbn [fst] in Hb.
        destruct r as [m|e].
        * eapply ext_trans; [exact Hs0|]. eapply ext_trans; [exact Hb|apply np_on_message; exact Hok].
        * exfalso. pose proof (raise_in_feed_not_ok cf app c2 e) as H. destruct (raise_in_feed cf app c2 e). cbn in *. congruence.
      + exfalso. pose proof (raise_in_feed_not_ok cf app c MProtocol) as H. destruct (raise_in_feed cf app c MProtocol). cbn in *. congruence.
  Qed.

  Lemma np_feed fuel : forall c d, snd (feed cf app fuel c d) = SOk -> ext_by nope c (fst (feed cf app fuel c d)).
  Proof.
    induction fuel as [|f IH]; intros c d Hok; [apply ext_refl|].
    cbn [feed] in *. destruct (k_closed c); [apply ext_refl|].
    destruct (fp_pull (k_ps c) d) as [x s rest|s|e].
    - pose proof (np_on_item (c <| k_ps := s |>) x) as Ho.
      destruct (on_item cf app (c <| k_ps := s |>) x) as [[c1 st] fs]. cbn [fst snd] in *.
      destruct st; [|cbn in Hok; discriminate..].
      assert (H0 : ext_by nope c c1) by (eapply ext_trans; [|apply Ho; reflexivity]; apply ext_field; reflexivity).
      destruct fs; cbn [fst]; [eapply ext_trans; [exact H0|apply IH; exact Hok]|exact H0].
    - apply ext_field; reflexivity.
    - exfalso. pose proof (raise_in_feed_not_ok cf app (c <| k_ps := fp_init |>) (perr_to_merr e)) as H. apply H. exact Hok.
  Qed.

  (* a feed that returns normally has reported no ProtocolError -- for any application *)
  Theorem feed_ok_no_protocol_error c d c' : feedf cf app c d = (c', SOk) -> perrors (k_tr c') = perrors (k_tr c).
  Proof.
    intros E. unfold feedf in E. pose proof (np_feed (S (S (length d))) c d) as H. rewrite E in H. cbn [fst snd] in H.
    destruct (H eq_refl) as (l & El & Fl). rewrite El. apply perrors_nope. exact Fl.
  Qed.
End NoError.

Section StreamViolation.
  Variable cf : cfg.
  Variable app : strategy.
  Hypothesis app_benign : benign app.
  Hypothesis no_ping_timeout : zpos (c_ping_timeout cf) = None.

  (* the offending frame: a well-formed data frame in the wrong place -- a continuation with nothing to continue, or a
     new BINARY (or empty TEXT) frame while a fragmented message is open *)
  Definition out_of_place (open : list frame) (f : frame) : Prop :=
    is_control (f_op f) = false /\
    ((f_op f = OP_CONT /\ open = []) \/ (f_op f <> OP_CONT /\ open <> [] /\ (f_op f <> OP_TEXT \/ f_payload f = []))).

  Theorem violation_after_prefix fs lfs c open ms open' f lf rest :
    idle c open -> data_head open -> Forall plain fs -> forms_ok fs lfs ->
    ref_messages open fs = Some (ms, open') ->
    plain f -> form_ok lf (blen (f_payload f)) = true ->
    validate_err false (hdr_of f) (blen (f_payload f)) = false -> out_of_place open' f ->
    let r := feedf cf app c (encode_all fs lfs ++ enc_frame f lf ++ rest) in
    snd r <> SOk /\
    msg_events (k_tr (fst r)) = rev (map ev_of ms) ++ msg_events (k_tr c) /\
    perrors (k_tr (fst r)) = false :: perrors (k_tr c).
  Proof.
    intros Hidle Hdh Hpl Hforms Href Hpf Hform Hv (Hnc & Hplace). cbv zeta.
    destruct (deliver_frames cf app app_benign no_ping_timeout fs lfs c open ms open' Hidle Hdh Hpl Hforms Href)
      as (c1 & E1 & Hidle1 & Hdh1 & M1 & _ & _).
    pose proof (feed_ok_no_protocol_error cf app c _ c1 E1) as P1.
    rewrite (feed_split cf app (length (encode_all fs lfs)) (encode_all fs lfs) (enc_frame f lf ++ rest) c (le_n _) (idle_ok c open Hidle)).
    unfold then_feed. rewrite E1. cbn [fst snd].
    destruct Hidle1 as (Hcl & Hcg & Hdf & Hsc & Hfr & Hrs & u & Hab & Hu).
    (* the parser hands the frame over: its header is well-formed *)
    assert (Hutf : textual f (is_text_msg open') = true -> uvalidate u (f_payload f) = Some u).
    { intros Ht. unfold textual in Ht. destruct Hplace as [[Ho Hop]|(Ho & Hop & [Hnt|Hemp])].
      - subst open'. rewrite Ho in Ht. cbn in Ht. discriminate.
      - apply N.eqb_neq in Hnt. apply N.eqb_neq in Ho. rewrite Hnt, Ho in Ht. cbn in Ht. discriminate.
      - rewrite Hemp. reflexivity. }
    destruct (pull_one_frame (k_ps c1) (is_text_msg open') u f lf rest u Hab Hpf Hform Hv Hutf) as (s' & Hpull & _).
    rewrite feedf_unfold by (rewrite Hab; unfold fp_ok, st_ok; cbn; lia). unfold feed_body. rewrite Hcl, Hpull.
    (* ... and the stream refuses it *)
    assert (Herr : stream_frame (c1 <| k_ps := s' |>) f = SErr).
    { apply (stream_discipline (c1 <| k_ps := s' |>) f Hnc). change (k_frames (c1 <| k_ps := s' |>)) with (k_frames c1). rewrite Hfr.
      destruct Hplace as [[Ho Hop]|(Ho & Hop & _)]; [left|right]; auto. }
    unfold on_item. rewrite Herr.
    pose proof (raise_in_feed_not_ok cf app (c1 <| k_ps := s' |>) MProtocol) as Hst.
    destruct (raise_in_feed_trace cf app (c1 <| k_ps := s' |>) MProtocol) as (l & El & Fl).
    destruct (raise_in_feed cf app (c1 <| k_ps := s' |>) MProtocol) as [c3 st]. cbn [fst snd] in *.
    change (k_tr (c1 <| k_ps := s' |>)) with (k_tr c1) in El.
    destruct st; try congruence; cbn [fst snd]; (split; [discriminate|]); rewrite El;
      (split; [rewrite housekeeping_no_msg by exact Fl; cbn [msg_events is_msg_ev]; exact M1
              |rewrite perrors_nope by (eapply Forall_impl; [exact housekeeping_nope|exact Fl]); cbn [perrors]; rewrite P1; reflexivity]).
  Qed.
End StreamViolation.

(* ====================================================================================================== *)
(* header-level violations: reserved bits, reserved opcodes, fragmented or oversize control frames *)
Lemma byte0_all fin r1 r2 r3 op : op < 16 ->
  let n0 := b2n (byte0 fin r1 r2 r3 op) in
  (128 <=? n0) = fin /\ N.testbit n0 6 = r1 /\ N.testbit n0 5 = r2 /\ N.testbit n0 4 = r3 /\ n0 mod 16 = op.
Proof.
  intros H. apply op_cases in H. cbn [In] in H.
  destruct fin, r1, r2, r3; repeat (destruct H as [<-|H]; [vm_compute; repeat split; reflexivity|]); contradiction.
Qed.

(* the bytes of an unmasked frame header with its length field, in any legal length form *)
Definition hdr_bytes (h : hinfo) (lf : lenform) (len : N) : bytes :=
  byte0 (h_fin h) (h_r1 h) (h_r2 h) (h_r3 h) (h_op h) :: len_field lf 0 len.

(* the parser reads them back: it is at the point where the header is judged, with the same text bookkeeping *)
Lemma pull_header s t u h lf len rest :
  at_boundary s t u -> h_mask h = false -> h_op h < 16 -> form_ok lf len = true ->
  exists g', fp_is_text g' = t /\ fp_u g' = u /\ fp_compression g' = false /\
             fp_pull s (hdr_bytes h lf len ++ rest) = after_resume fpg pitem perr (after_len g' h len) rest fp_pull.
Proof.
  intros Hs Hm Hop Hf. unfold hdr_bytes.
  pose proof (byte0_all (h_fin h) (h_r1 h) (h_r2 h) (h_r3 h) (h_op h) Hop) as (B1 & B2 & B3 & B4 & B5). cbv zeta in *.
  set (g0 := {| fp_phase := FHdr; fp_is_text := t; fp_u := u; fp_compression := false |}).
  unfold at_boundary in Hs. subst s. fold g0.
  assert (Hh : forall mb, mb = false ->
            {| h_fin := h_fin h; h_r1 := h_r1 h; h_r2 := h_r2 h; h_r3 := h_r3 h; h_op := h_op h; h_mask := mb |} = h).
  { intros mb ->. destruct h; cbn in *; subst; reflexivity. }
  destruct (len_field_cases lf len Hf) as [(-> & Hl & El)|[(-> & Hl & El)|(-> & Hl & El)]]; rewrite El.
  - change ((byte0 (h_fin h) (h_r1 h) (h_r2 h) (h_r3 h) (h_op h) :: [n2b len]) ++ rest)
      with ([byte0 (h_fin h) (h_r1 h) (h_r2 h) (h_r3 h) (h_op h); n2b len] ++ rest).
    pose proof (read_exact g0 false [byte0 (h_fin h) (h_r1 h) (h_r2 h) (h_r3 h) (h_op h); n2b len] rest ltac:(discriminate)) as Hr.
    cbv zeta in Hr. change (blen [byte0 (h_fin h) (h_r1 h) (h_r2 h) (h_r3 h) (h_op h); n2b len]) with 2 in Hr. rewrite Hr. clear Hr.
    unfold fp_resume. cbn [fp_phase g0 nth]. rewrite B1, B2, B3, B4, B5. rewrite (b2n_n2b len) by lia.
    replace (128 <=? len) with false by (symmetry; apply N.leb_gt; lia).
    rewrite (N.mod_small len 128) by lia.
    replace (len =? 126) with false by (symmetry; apply N.eqb_neq; lia).
    replace (len =? 127) with false by (symmetry; apply N.eqb_neq; lia).
    rewrite (Hh false eq_refl). exists g0. repeat split; reflexivity.
  - change ((byte0 (h_fin h) (h_r1 h) (h_r2 h) (h_r3 h) (h_op h) :: n2b 126 :: be_encode 2 len) ++ rest)
      with ([byte0 (h_fin h) (h_r1 h) (h_r2 h) (h_r3 h) (h_op h); n2b 126] ++ (be_encode 2 len ++ rest)).
    pose proof (read_exact g0 false [byte0 (h_fin h) (h_r1 h) (h_r2 h) (h_r3 h) (h_op h); n2b 126] (be_encode 2 len ++ rest) ltac:(discriminate)) as Hr.
    cbv zeta in Hr. change (blen [byte0 (h_fin h) (h_r1 h) (h_r2 h) (h_r3 h) (h_op h); n2b 126]) with 2 in Hr. rewrite Hr. clear Hr.
    unfold fp_resume at 1. cbn [fp_phase g0 nth]. rewrite B1, B2, B3, B4, B5.
    change (b2n (n2b 126)) with 126. change (128 <=? 126) with false. change (126 mod 128 =? 126) with true.
    cbn [after_resume set_phase]. rewrite (Hh false eq_refl).
    assert (Hbe : be_encode 2 len <> []) by (intros E; pose proof (be_encode_length 2 len) as L; rewrite E in L; discriminate).
    match goal with |- context [fp_pull {| pg := ?g1; paw := AwBytes false; prem := 2; pbuf := [] |} (be_encode 2 len ++ _)] =>
      pose proof (read_exact g1 false (be_encode 2 len) rest Hbe) as Hr; set (gx := g1) in * end.
    cbv zeta in Hr. unfold blen in Hr at 1. rewrite be_encode_length in Hr. change (N.of_nat 2) with 2 in Hr. rewrite Hr. clear Hr.
    unfold fp_resume at 1. cbn [fp_phase gx]. rewrite be_roundtrip by (cbn; lia).
    exists gx. repeat split; reflexivity.
  - change ((byte0 (h_fin h) (h_r1 h) (h_r2 h) (h_r3 h) (h_op h) :: n2b 127 :: be_encode 8 len) ++ rest)
      with ([byte0 (h_fin h) (h_r1 h) (h_r2 h) (h_r3 h) (h_op h); n2b 127] ++ (be_encode 8 len ++ rest)).
    pose proof (read_exact g0 false [byte0 (h_fin h) (h_r1 h) (h_r2 h) (h_r3 h) (h_op h); n2b 127] (be_encode 8 len ++ rest) ltac:(discriminate)) as Hr.
    cbv zeta in Hr. change (blen [byte0 (h_fin h) (h_r1 h) (h_r2 h) (h_r3 h) (h_op h); n2b 127]) with 2 in Hr. rewrite Hr. clear Hr.
    unfold fp_resume at 1. cbn [fp_phase g0 nth]. rewrite B1, B2, B3, B4, B5.
    change (b2n (n2b 127)) with 127. change (128 <=? 127) with false. change (127 mod 128 =? 126) with false. change (127 mod 128 =? 127) with true.
    cbn [after_resume set_phase]. rewrite (Hh false eq_refl).
    assert (Hbe : be_encode 8 len <> []) by (intros E; pose proof (be_encode_length 8 len) as L; rewrite E in L; discriminate).
    match goal with |- context [fp_pull {| pg := ?g1; paw := AwBytes false; prem := 8; pbuf := [] |} (be_encode 8 len ++ _)] =>
      pose proof (read_exact g1 false (be_encode 8 len) rest Hbe) as Hr; set (gx := g1) in * end.
    cbv zeta in Hr. unfold blen in Hr at 1. rewrite be_encode_length in Hr. change (N.of_nat 8) with 8 in Hr. rewrite Hr. clear Hr.
    unfold fp_resume at 1. cbn [fp_phase gx]. rewrite be_roundtrip by (cbn; lia).
    exists gx. repeat split; reflexivity.
Qed.

Section HeaderViolation.
  Variable cf : cfg.
  Variable app : strategy.
  Hypothesis app_benign : benign app.
  Hypothesis no_ping_timeout : zpos (c_ping_timeout cf) = None.

  Theorem header_violation_after_prefix fs lfs c open ms open' h lf len rest :
    idle c open -> data_head open -> Forall plain fs -> forms_ok fs lfs ->
    ref_messages open fs = Some (ms, open') ->
    h_mask h = false -> h_op h < 16 -> form_ok lf len = true -> validate_err false h len = true ->
    let r := feedf cf app c (encode_all fs lfs ++ hdr_bytes h lf len ++ rest) in
    snd r <> SOk /\
    msg_events (k_tr (fst r)) = rev (map ev_of ms) ++ msg_events (k_tr c) /\
    perrors (k_tr (fst r)) = false :: perrors (k_tr c).
  Proof.
    intros Hidle Hdh Hpl Hforms Href Hm Hop Hf Hv. cbv zeta.
    destruct (deliver_frames cf app app_benign no_ping_timeout fs lfs c open ms open' Hidle Hdh Hpl Hforms Href)
      as (c1 & E1 & Hidle1 & Hdh1 & M1 & _ & _).
    pose proof (feed_ok_no_protocol_error cf app c _ c1 E1) as P1.
    rewrite (feed_split cf app (length (encode_all fs lfs)) (encode_all fs lfs) (hdr_bytes h lf len ++ rest) c (le_n _) (idle_ok c open Hidle)).
    unfold then_feed. rewrite E1. cbn [fst snd].
    destruct Hidle1 as (Hcl & Hcg & Hdf & Hsc & Hfr & Hrs & u & Hab & Hu).
    destruct (pull_header (k_ps c1) (is_text_msg open') u h lf len rest Hab Hm Hop Hf) as (g' & G1 & G2 & G3 & Hpull).
    assert (Hlen : len < 9223372036854775808) by (destruct lf; cbn in Hf; apply N.ltb_lt in Hf; lia).
    assert (Herr : fp_pull (k_ps c1) (hdr_bytes h lf len ++ rest) = Err PE_Protocol).
    { rewrite Hpull. unfold after_len. replace (9223372036854775807 <? len) with false by (symmetry; apply N.ltb_ge; lia).
      rewrite Hm. unfold after_mask. rewrite G3, Hv. reflexivity. }
    rewrite feedf_unfold by (rewrite Hab; unfold fp_ok, st_ok; cbn; lia). unfold feed_body. rewrite Hcl, Herr.
    cbn [perr_to_merr].
    pose proof (raise_in_feed_not_ok cf app (c1 <| k_ps := fp_init |>) MProtocol) as Hst.
    destruct (raise_in_feed_trace cf app (c1 <| k_ps := fp_init |>) MProtocol) as (l & El & Fl).
    destruct (raise_in_feed cf app (c1 <| k_ps := fp_init |>) MProtocol) as [c3 st]. cbn [fst snd] in *.
    change (k_tr (c1 <| k_ps := fp_init |>)) with (k_tr c1) in El.
    split; [exact Hst|]. rewrite El.
    split; [rewrite housekeeping_no_msg by exact Fl; cbn [msg_events is_msg_ev]; exact M1
           |rewrite perrors_nope by (eapply Forall_impl; [exact housekeeping_nope|exact Fl]); cbn [perrors]; rewrite P1; reflexivity].
  Qed.
End HeaderViolation.
