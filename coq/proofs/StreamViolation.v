(* C04 for a whole stream: a conforming prefix is delivered, then the frame that breaks the fragmentation discipline
   yields exactly one ProtocolError, fails the feed and nothing of it or after it is delivered. *)
From Coq Require Import List NArith ZArith Arith Lia Bool.
From Coq.Strings Require Import Byte.
From RecordUpdate Require Import RecordSet.
From Model Require Import Bytes Utf8 Frame Parser FrameParser Response Conn.
From Proofs Require Import BytesFacts ParserFacts FrameParserFacts ConnFacts ApiFacts TraceFacts ViolationFacts ShapeFacts DeliveryFacts.
Import ListNotations RecordSetNotations.
Open Scope N_scope.

(* ProtocolError events of a trace, most recent first *)
Fixpoint perrors (tr : list titem) : list bool :=
  match tr with
  | [] => []
  | TEv (EvProtocolError critical) :: r => critical :: perrors r
  | _ :: r => perrors r
  end.

Definition nope (x : titem) : Prop := match x with TEv (EvProtocolError _) => False | _ => True end.

Lemma perrors_nope l : Forall nope l -> forall tr, perrors (l ++ tr) = perrors tr.
Proof.
  induction 1 as [|x l Hx _ IH]; intros tr; [reflexivity|].
  destruct x as [e| | | | | | | | | |]; cbn [List.app perrors]; try apply IH. destruct e; try apply IH. contradiction.
Qed.
Lemma housekeeping_nope x : housekeeping x -> nope x.
Proof. destruct x as [e| | | | | | | | | |]; cbn; auto. destruct e; cbn; auto. Qed.
Lemma not_event_nope x : not_event x -> nope x.
Proof. destruct x; cbn; auto. contradiction. Qed.
Lemma housekeeping_no_msg l : Forall housekeeping l -> forall tr, msg_events (l ++ tr) = msg_events tr.
Proof.
  induction 1 as [|x l Hx _ IH]; intros tr; [reflexivity|].
  destruct x as [e| | | | | | | | | |]; cbn [List.app msg_events]; try apply IH.
  destruct e; cbn in Hx; try contradiction; cbn [is_msg_ev]; apply IH.
Qed.

Ltac np_inst L := ext_inst L nope.

Section NoError.
  Variable cf : cfg.
  Variable app : strategy.

  Lemma np_regular c : ext_by nope c (fst (regular cf app c)).
  Proof. eapply ext_weaken; [exact housekeeping_nope|apply ext_regular]. Qed.
  Lemma np_feed_yield c e post : nope (TEv e) -> (forall c1, ext_by nope c1 (fst (post c1))) ->
    ext_by nope c (fst (feed_yield cf app c e post)).
  Proof. intros He Hp. np_inst fr_feed_yield; auto. Qed.
  Lemma np_build_message c frames : ext_by nope c (fst (build_message c frames)).
  Proof. np_inst fr_build_message. Qed.
  Lemma np_ws_close c code reason : ext_by nope c (fst (ws_close c code reason)).
  Proof. eapply ext_weaken; [exact not_event_nope|apply ext_ws_close]. Qed.
  Lemma np_on_disconnect c : ext_by nope c (on_disconnect c).
  Proof. eapply ext_weaken; [exact not_event_nope|apply ext_on_disconnect]. Qed.

  (* the only source of ProtocolError events is the error path, and that path never returns normally *)
  Lemma np_on_message c m : snd (fst (on_message cf app c m)) = SOk -> ext_by nope c (fst (fst (on_message cf app c m))).
  Proof.
    intros Hok.
    assert (Y : forall e post, nope (TEv e) -> (forall c1, ext_by nope c1 (fst (post c1))) ->
              ext_by nope c (fst (fst (let '(c1, st) := feed_yield cf app c e post in (c1, st, FContinue))))).
    { intros e post He Hp. pose proof (np_feed_yield c e post He Hp) as H. destruct (feed_yield cf app c e post). exact H. }
    destruct m; unfold on_message in *; try (apply Y; [exact I|intros; apply ext_refl]).
    - destruct (match code with Some n => invalid_close_code n | None => false end).
      + exfalso. pose proof (raise_in_feed_not_ok cf app c MProtocol) as H. destruct (raise_in_feed cf app c MProtocol). cbn in *. congruence.
      + destruct (k_closed c); [apply ext_refl|]. destruct (k_closing c).
        * apply Y; [exact I|]. intros c1. cbn [fst]. apply ext_field. reflexivity.
        * apply Y; [exact I|]. intros c1. cbn [fst]. eapply ext_trans; [apply np_ws_close|apply ext_field; reflexivity].
    - apply ext_refl.
  Qed.

  Lemma np_on_item c x : snd (fst (on_item cf app c x)) = SOk -> ext_by nope c (fst (fst (on_item cf app c x))).
  Proof.
    intros Hok. unfold on_item in *. destruct x as [data|f].
    - destruct (on_response (c_accept cf) (parse_response data)) as [proto d|].
      + match goal with |- context [feed_yield cf app ?c0 ?e ?post] =>
          pose proof (np_feed_yield c0 e post I ltac:(intros; apply ext_refl)) as H;
          destruct (feed_yield cf app c0 e post) as [c2 st]; cbn [fst] in * end.
        eapply ext_trans; [|exact H]. destruct d; apply ext_field; reflexivity.
      + match goal with |- context [feed_yield cf app ?c0 ?e ?post] =>
          pose proof (np_feed_yield c0 e post I ltac:(intros; apply ext_refl)) as H;
          destruct (feed_yield cf app c0 e post) as [c2 st]; cbn [fst] in * end.
        eapply ext_trans; [apply np_on_disconnect|exact H].
    - pose proof (fr_stream_frame (ext_by nope) (ext_refl nope)) as Hs0.
      specialize (Hs0 ltac:(intros; apply ext_field; reflexivity) c f).
      destruct (stream_frame c f) as [c1|c1 frames|].
      + exact Hs0.
      + pose proof (np_build_message c1 frames) as Hb. destruct (build_message c1 frames) as [c2 r]. cbn [fst] in Hb.
        destruct r as [m|e].
        * eapply ext_trans; [exact Hs0|]. eapply ext_trans; [exact Hb|apply np_on_message; exact Hok].
        * exfalso. pose proof (raise_in_feed_not_ok cf app c2 e) as H. destruct (raise_in_feed cf app c2 e). cbn in *. congruence.
      + exfalso. pose proof (raise_in_feed_not_ok cf app c MProtocol) as H. destruct (raise_in_feed cf app c MProtocol). cbn in *. congruence.
  Qed.

  Lemma np_feed fuel : forall c d, snd (feed cf app fuel c d) = SOk -> ext_by nope c (fst (feed cf app fuel c d)).
  Proof.
    induction fuel as [|f IH]; intros c d Hok; [apply ext_refl|].
    cbn [feed] in *. destruct (k_closed c); [apply ext_refl|].
    destruct (fp_pull (k_ps c) d) as [x s rest|s|e].
    - pose proof (np_on_item (c <| k_ps := s |>) x) as Ho.
      destruct (on_item cf app (c <| k_ps := s |>) x) as [[c1 st] fs]. cbn [fst snd] in *.
      destruct st; [|cbn in Hok; discriminate..].
      assert (H0 : ext_by nope c c1) by (eapply ext_trans; [|apply Ho; reflexivity]; apply ext_field; reflexivity).
      destruct fs; cbn [fst]; [eapply ext_trans; [exact H0|apply IH; exact Hok]|exact H0].
    - apply ext_field; reflexivity.
    - exfalso. pose proof (raise_in_feed_not_ok cf app (c <| k_ps := fp_init |>) (perr_to_merr e)) as H. apply H. exact Hok.
  Qed.

  (* a feed that returns normally has reported no ProtocolError -- for any application *)
  Theorem feed_ok_no_protocol_error c d c' : feedf cf app c d = (c', SOk) -> perrors (k_tr c') = perrors (k_tr c).
  Proof.
    intros E. unfold feedf in E. pose proof (np_feed (S (S (length d))) c d) as H. rewrite E in H. cbn [fst snd] in H.
    destruct (H eq_refl) as (l & El & Fl). rewrite El. apply perrors_nope. exact Fl.
  Qed.
End NoError.

Section StreamViolation.
  Variable cf : cfg.
  Variable app : strategy.
  Hypothesis app_passive : passive app.
  Hypothesis no_ping_timeout : zpos (c_ping_timeout cf) = None.

  (* the offending frame: a well-formed data frame in the wrong place -- a continuation with nothing to continue, or a
     new BINARY (or empty TEXT) frame while a fragmented message is open *)
  Definition out_of_place (open : list frame) (f : frame) : Prop :=
    is_control (f_op f) = false /\
    ((f_op f = OP_CONT /\ open = []) \/ (f_op f <> OP_CONT /\ open <> [] /\ (f_op f <> OP_TEXT \/ f_payload f = []))).

  Theorem violation_after_prefix fs lfs c open ms open' f lf rest :
    idle c open -> data_head open -> Forall plain fs -> forms_ok fs lfs ->
    ref_messages open fs = Some (ms, open') ->
    plain f -> form_ok lf (blen (f_payload f)) = true ->
    validate_err false (hdr_of f) (blen (f_payload f)) = false -> out_of_place open' f ->
    let r := feedf cf app c (encode_all fs lfs ++ enc_frame f lf ++ rest) in
    snd r <> SOk /\
    msg_events (k_tr (fst r)) = rev (map ev_of ms) ++ msg_events (k_tr c) /\
    perrors (k_tr (fst r)) = false :: perrors (k_tr c).
  Proof.
    intros Hidle Hdh Hpl Hforms Href Hpf Hform Hv (Hnc & Hplace). cbv zeta.
    destruct (deliver_frames cf app app_passive no_ping_timeout fs lfs c open ms open' Hidle Hdh Hpl Hforms Href)
      as (c1 & E1 & Hidle1 & Hdh1 & M1 & _ & _).
    pose proof (feed_ok_no_protocol_error cf app c _ c1 E1) as P1.
    rewrite (feed_split cf app (length (encode_all fs lfs)) (encode_all fs lfs) (enc_frame f lf ++ rest) c (le_n _) (idle_ok c open Hidle)).
    unfold then_feed. rewrite E1. cbn [fst snd].
    destruct Hidle1 as (Hcl & Hcg & Hdf & Hsc & Hfr & Hrs & u & Hab & Hu).
    (* the parser hands the frame over: its header is well-formed *)
    assert (Hutf : textual f (is_text_msg open') = true -> uvalidate u (f_payload f) = Some u).
    { intros Ht. unfold textual in Ht. destruct Hplace as [[Ho Hop]|(Ho & Hop & [Hnt|Hemp])].
      - subst open'. rewrite Ho in Ht. cbn in Ht. discriminate.
      - apply N.eqb_neq in Hnt. apply N.eqb_neq in Ho. rewrite Hnt, Ho in Ht. cbn in Ht. discriminate.
      - rewrite Hemp. reflexivity. }
    destruct (pull_one_frame (k_ps c1) (is_text_msg open') u f lf rest u Hab Hpf Hform Hv Hutf) as (s' & Hpull & _).
    rewrite feedf_unfold by (rewrite Hab; unfold fp_ok, st_ok; cbn; lia). unfold feed_body. rewrite Hcl, Hpull.
    (* ... and the stream refuses it *)
    assert (Herr : stream_frame (c1 <| k_ps := s' |>) f = SErr).
    { apply (stream_discipline (c1 <| k_ps := s' |>) f Hnc). change (k_frames (c1 <| k_ps := s' |>)) with (k_frames c1). rewrite Hfr.
      destruct Hplace as [[Ho Hop]|(Ho & Hop & _)]; [left|right]; auto. }
    unfold on_item. rewrite Herr.
    pose proof (raise_in_feed_not_ok cf app (c1 <| k_ps := s' |>) MProtocol) as Hst.
    destruct (raise_in_feed_trace cf app (c1 <| k_ps := s' |>) MProtocol) as (l & El & Fl).
    destruct (raise_in_feed cf app (c1 <| k_ps := s' |>) MProtocol) as [c3 st]. cbn [fst snd] in *.
    change (k_tr (c1 <| k_ps := s' |>)) with (k_tr c1) in El.
    destruct st; try congruence; cbn [fst snd]; (split; [discriminate|]); rewrite El;
      (split; [rewrite housekeeping_no_msg by exact Fl; cbn [msg_events is_msg_ev]; exact M1
              |rewrite perrors_nope by (eapply Forall_impl; [exact housekeeping_nope|exact Fl]); cbn [perrors]; rewrite P1; reflexivity]).
  Qed.
End StreamViolation.
