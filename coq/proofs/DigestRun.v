(* C10 with the digest inside the model: a connection whose expected accept value is derived, as lomond derives it, from
   the 16 random bytes of this attempt (key = base64(rand16), accept = base64(sha1(key ++ GUID))) becomes Ready only for a
   reply carrying that very value (up to letter case: KF-D), status 101 and Upgrade: websocket. *)
From Coq Require Import String.
From Coq Require Import List NArith ZArith Lia Bool.
From Coq.Strings Require Import Byte.
From Model Require Import Bytes Utf8 Frame Parser FrameParser Response Conn Digest Handshake.
From Proofs Require Import HandshakeFacts GenTie ShapeFacts ReadyFacts DeliveryFacts RejectFacts DigestFacts.
Import ListNotations.
Open Scope N_scope.

Definition has_ready (l : list ev) : Prop := exists p d, In (EvReady p d) l.

Lemma quiet_no_ready l : Forall quiet l -> ~ has_ready l.
Proof.
  intros F (p & d & H). rewrite Forall_forall in F. destruct (F _ H) as [A _]. discriminate.
Qed.

(* the decision a reply must have passed when the run shows a Ready event *)
Theorem ready_needs_accepted_reply cf app keys wf zt ct dt0 reply rest :
  reply_block reply ->
  has_ready (evs (k_tr (run cf app (init keys wf zt ct) CnOk (StRead dt0 (RData reply) :: rest)))) ->
  exists p d, on_response (c_accept cf) (parse_response reply) = HReady p d.
Proof.
  intros Hrb Hr.
  destruct (on_response_cases (c_accept cf) (parse_response reply)) as [(p & d & E)|E]; [eauto|].
  exfalso. eapply quiet_no_ready; [|exact Hr]. apply rejected_run; assumption.
Qed.

(* ... spelled out with the digest of THIS connection's key *)
Theorem ready_needs_digest cf app keys wf zt ct dt0 reply rest rand16 :
  c_accept cf = accept_of (make_key rand16) ->
  reply_block reply ->
  has_ready (evs (k_tr (run cf app (init keys wf zt ct) CnOk (StRead dt0 (RData reply) :: rest)))) ->
  r_status (parse_response reply) = Some 101 /\
  (exists u, resp_get (parse_response reply) (str "upgrade"%string) = Some u /\ lower_s u = str "websocket"%string) /\
  (exists a, resp_get (parse_response reply) (str "sec-websocket-accept"%string) = Some a /\
             lower_s a = lower_s (b64_encode (sha1 (b64_encode rand16 ++ WS_GUID)))).
Proof.
  intros Ha Hrb Hr.
  destruct (ready_needs_accepted_reply cf app keys wf zt ct dt0 reply rest Hrb Hr) as (p & d & E).
  rewrite Ha in E. apply on_response_ready_iff in E. destruct E as (S & U & A & _).
  split; [exact S|]. split; [exact U|]. exact A.
Qed.

(* the key the model writes into the request of an attempt with random bytes rand16 *)
Theorem request_carries_key q rand16 :
  q_key q = make_key rand16 ->
  In (str "Sec-WebSocket-Key"%string, b64_encode rand16) (request_headers q).
Proof.
  intros H. destruct (request_shape q) as (_ & _ & _ & _ & K & _). rewrite H in K. exact K.
Qed.

(* the model's GUID is the one the running code uses (regenerated constant) *)
Theorem ws_guid_is_impl : map n2b Gen.GenConst.impl_ws_key = WS_GUID.
Proof. destruct GenTie.impl_constants as (A & _). rewrite A. reflexivity. Qed.
