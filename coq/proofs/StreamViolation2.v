(* C04 for a whole stream, continued: after a conforming prefix, a frame announcing 2^63 bytes or more, and a masked
   frame, each yield exactly one ProtocolError, fail the feed, and nothing of them or after them is delivered. *)
From Coq Require Import List NArith ZArith Arith Lia Bool.
From Coq.Strings Require Import Byte.
From RecordUpdate Require Import RecordSet.
From Model Require Import Bytes Utf8 Frame Parser FrameParser Response Conn.
From Proofs Require Import BytesFacts Utf8Facts ParserFacts FrameParserFacts FrameFacts ConnFacts ApiFacts TraceFacts ViolationFacts ShapeFacts DeliveryFacts StreamViolation.
Import ListNotations RecordSetNotations.
Open Scope N_scope.

(* what can stand on the wire: the 64-bit form carries any value below 2^64 *)
Definition form_wire (lf : lenform) (len : N) : bool :=
  match lf with L7 => len <? 126 | L16 => len <? 65536 | L64 => len <? 18446744073709551616 end.
Definition mbit (h : hinfo) : N := if h_mask h then 128 else 0.
(* the bytes of any frame header, masked or not, with its length field *)
Definition hdr_bytes_m (h : hinfo) (lf : lenform) (len : N) : bytes :=
  byte0 (h_fin h) (h_r1 h) (h_r2 h) (h_r3 h) (h_op h) :: len_field lf (mbit h) len.

Lemma byte1_all h x : x < 128 ->
  let n := b2n (n2b (mbit h + x)) in (128 <=? n) = h_mask h /\ n mod 128 = x.
Proof.
  intros H. cbv zeta. unfold mbit. rewrite b2n_n2b by (destruct (h_mask h); lia). destruct (h_mask h).
  - split; [apply N.leb_le; lia|]. replace (128 + x) with (x + 1 * 128) by lia. rewrite N.mod_add by lia. apply N.mod_small; lia.
  - rewrite N.add_0_l. split; [apply N.leb_gt; lia|apply N.mod_small; lia].
Qed.

Lemma pull_header_m s t u h lf len rest :
  at_boundary s t u -> h_op h < 16 -> form_wire lf len = true ->
  exists g', fp_is_text g' = t /\ fp_u g' = u /\ fp_compression g' = false /\
             fp_pull s (hdr_bytes_m h lf len ++ rest) = after_resume fpg pitem perr (after_len g' h len) rest fp_pull.
Proof.
  intros Hs Hop Hf. unfold hdr_bytes_m.
  pose proof (byte0_all (h_fin h) (h_r1 h) (h_r2 h) (h_r3 h) (h_op h) Hop) as (B1 & B2 & B3 & B4 & B5). cbv zeta in *.
  set (g0 := {| fp_phase := FHdr; fp_is_text := t; fp_u := u; fp_compression := false |}).
  unfold at_boundary in Hs. subst s. fold g0.
  assert (Hh : {| h_fin := h_fin h; h_r1 := h_r1 h; h_r2 := h_r2 h; h_r3 := h_r3 h; h_op := h_op h; h_mask := h_mask h |} = h)
    by (destruct h; reflexivity).
  set (b0 := byte0 (h_fin h) (h_r1 h) (h_r2 h) (h_r3 h) (h_op h)) in *.
  destruct lf; cbn [form_wire] in Hf; apply N.ltb_lt in Hf; cbn [len_field].
  - pose proof (byte1_all h len ltac:(lia)) as (M1 & M2). cbv zeta in M1, M2.
    change ((b0 :: [n2b (mbit h + len)]) ++ rest) with ([b0; n2b (mbit h + len)] ++ rest).
    pose proof (read_exact g0 false [b0; n2b (mbit h + len)] rest ltac:(discriminate)) as Hr.
    cbv zeta in Hr. change (blen [b0; n2b (mbit h + len)]) with 2 in Hr. rewrite Hr. clear Hr.
    unfold fp_resume. cbn [fp_phase g0 nth]. rewrite B1, B2, B3, B4, B5, M1, M2.
    replace (len =? 126) with false by (symmetry; apply N.eqb_neq; lia).
    replace (len =? 127) with false by (symmetry; apply N.eqb_neq; lia).
    rewrite Hh. exists g0. repeat split; reflexivity.
  - pose proof (byte1_all h 126 ltac:(lia)) as (M1 & M2). cbv zeta in M1, M2.
    change ((b0 :: n2b (mbit h + 126) :: be_encode 2 len) ++ rest) with ([b0; n2b (mbit h + 126)] ++ (be_encode 2 len ++ rest)).
    pose proof (read_exact g0 false [b0; n2b (mbit h + 126)] (be_encode 2 len ++ rest) ltac:(discriminate)) as Hr.
    cbv zeta in Hr. change (blen [b0; n2b (mbit h + 126)]) with 2 in Hr. rewrite Hr. clear Hr.
    unfold fp_resume at 1. cbn [fp_phase g0 nth]. rewrite B1, B2, B3, B4, B5, M1, M2.
    change (126 =? 126) with true. cbn [after_resume set_phase]. rewrite Hh.
    assert (Hbe : be_encode 2 len <> []) by (intros E; pose proof (be_encode_length 2 len) as L; rewrite E in L; discriminate).
    match goal with |- context [fp_pull {| pg := ?g1; paw := AwBytes false; prem := 2; pbuf := [] |} (be_encode 2 len ++ _)] =>
      pose proof (read_exact g1 false (be_encode 2 len) rest Hbe) as Hr; set (gx := g1) in * end.
    cbv zeta in Hr. unfold blen in Hr at 1. rewrite be_encode_length in Hr. change (N.of_nat 2) with 2 in Hr. rewrite Hr. clear Hr.
    unfold fp_resume at 1. cbn [fp_phase gx]. rewrite be_roundtrip by (cbn; lia).
    exists gx. repeat split; reflexivity.
  - pose proof (byte1_all h 127 ltac:(lia)) as (M1 & M2). cbv zeta in M1, M2.
    change ((b0 :: n2b (mbit h + 127) :: be_encode 8 len) ++ rest) with ([b0; n2b (mbit h + 127)] ++ (be_encode 8 len ++ rest)).
    pose proof (read_exact g0 false [b0; n2b (mbit h + 127)] (be_encode 8 len ++ rest) ltac:(discriminate)) as Hr.
    cbv zeta in Hr. change (blen [b0; n2b (mbit h + 127)]) with 2 in Hr. rewrite Hr. clear Hr.
    unfold fp_resume at 1. cbn [fp_phase g0 nth]. rewrite B1, B2, B3, B4, B5, M1, M2.
    change (127 =? 126) with false. change (127 =? 127) with true. cbn [after_resume set_phase]. rewrite Hh.
    assert (Hbe : be_encode 8 len <> []) by (intros E; pose proof (be_encode_length 8 len) as L; rewrite E in L; discriminate).
    match goal with |- context [fp_pull {| pg := ?g1; paw := AwBytes false; prem := 8; pbuf := [] |} (be_encode 8 len ++ _)] =>
      pose proof (read_exact g1 false (be_encode 8 len) rest Hbe) as Hr; set (gx := g1) in * end.
    cbv zeta in Hr. unfold blen in Hr at 1. rewrite be_encode_length in Hr. change (N.of_nat 8) with 8 in Hr. rewrite Hr. clear Hr.
    unfold fp_resume at 1. cbn [fp_phase gx]. rewrite be_roundtrip by (cbn; lia).
    exists gx. repeat split; reflexivity.
Qed.

Definition crit_of (e : perr) : bool := match e with PE_Protocol => false | _ => true end.

Section ParserViolation.
  Variable cf : cfg.
  Variable app : strategy.
  Hypothesis app_benign : benign app.
  Hypothesis no_ping_timeout : zpos (c_ping_timeout cf) = None.

  (* the common part: a conforming prefix, then bytes on which the parser -- at a frame boundary -- raises *)
  Lemma parser_error_after_prefix (Q : perr -> Prop) fs lfs c open ms open' w :
    idle c open -> data_head open -> Forall plain fs -> forms_ok fs lfs ->
    ref_messages open fs = Some (ms, open') ->
    (forall s u, at_boundary s (is_text_msg open') u ->
                 (if is_text_msg open' then uvalidate UAcc (payload_of open') = Some u else u = UAcc) ->
                 exists e, fp_pull s w = Err e /\ Q e) ->
    let r := feedf cf app c (encode_all fs lfs ++ w) in
    snd r <> SOk /\
    msg_events (k_tr (fst r)) = rev (map ev_of ms) ++ msg_events (k_tr c) /\
    exists e, Q e /\ perrors (k_tr (fst r)) = crit_of e :: perrors (k_tr c).
  Proof.
    intros Hidle Hdh Hpl Hforms Href Hw. cbv zeta.
    destruct (deliver_frames cf app app_benign no_ping_timeout fs lfs c open ms open' Hidle Hdh Hpl Hforms Href)
      as (c1 & E1 & Hidle1 & Hdh1 & M1 & _ & _).
    pose proof (feed_ok_no_protocol_error cf app c _ c1 E1) as P1.
    rewrite (feed_split cf app (length (encode_all fs lfs)) (encode_all fs lfs) w c (le_n _) (idle_ok c open Hidle)).
    unfold then_feed. rewrite E1. cbn [fst snd].
    destruct Hidle1 as (Hcl & Hcg & Hdf & Hsc & Hfr & Hrs & u & Hab & Hu).
    destruct (Hw (k_ps c1) u Hab Hu) as (e & Herr & Qe).
    rewrite feedf_unfold by (rewrite Hab; unfold fp_ok, st_ok; cbn; lia). unfold feed_body. rewrite Hcl, Herr.
    pose proof (raise_in_feed_not_ok cf app (c1 <| k_ps := fp_init |>) (perr_to_merr e)) as Hst.
    destruct (raise_in_feed_trace cf app (c1 <| k_ps := fp_init |>) (perr_to_merr e)) as (l & El & Fl).
    destruct (raise_in_feed cf app (c1 <| k_ps := fp_init |>) (perr_to_merr e)) as [c3 st]. cbn [fst snd] in *.
    change (k_tr (c1 <| k_ps := fp_init |>)) with (k_tr c1) in El.
    split; [exact Hst|]. rewrite El.
    split; [rewrite housekeeping_no_msg by exact Fl; cbn [msg_events is_msg_ev]; exact M1|].
    exists e. split; [exact Qe|].
    rewrite perrors_nope by (eapply Forall_impl; [exact housekeeping_nope|exact Fl]). cbn [perrors]. rewrite P1.
    destruct e; reflexivity.
  Qed.

  (* a frame that announces 2^63 bytes or more (the most significant bit of the 64-bit length set): whatever its other
     header bits, masked or not, it is refused as soon as its length has been read *)
  Theorem length_violation_after_prefix fs lfs c open ms open' h len rest :
    idle c open -> data_head open -> Forall plain fs -> forms_ok fs lfs ->
    ref_messages open fs = Some (ms, open') ->
    h_op h < 16 -> 9223372036854775808 <= len < 18446744073709551616 ->
    let r := feedf cf app c (encode_all fs lfs ++ hdr_bytes_m h L64 len ++ rest) in
    snd r <> SOk /\
    msg_events (k_tr (fst r)) = rev (map ev_of ms) ++ msg_events (k_tr c) /\
    perrors (k_tr (fst r)) = false :: perrors (k_tr c).
  Proof.
    intros Hidle Hdh Hpl Hforms Href Hop Hlen.
    destruct (parser_error_after_prefix (fun e => e = PE_Protocol) fs lfs c open ms open' (hdr_bytes_m h L64 len ++ rest)
                Hidle Hdh Hpl Hforms Href) as (A & B & e & -> & C).
    - intros s u Hab _. exists PE_Protocol. split; [|reflexivity].
      destruct (pull_header_m s (is_text_msg open') u h L64 len rest Hab Hop) as (g' & _ & _ & _ & Hpull).
      { cbn. apply N.ltb_lt. lia. }
      rewrite Hpull. unfold after_len. replace (9223372036854775807 <? len) with true by (symmetry; apply N.ltb_lt; lia). reflexivity.
    - cbv zeta. auto.
  Qed.

  (* a masked frame from the server, otherwise well-formed (any opcode, any length form, any key, any payload bytes): it is
     read to its end and refused; a masked TEXT frame may already be refused while its payload is read, as invalid UTF-8 --
     then the error is the critical kind.  Either way exactly one ProtocolError and the frame is not delivered. *)
  Theorem masked_frame_after_prefix fs lfs c open ms open' h lf key p rest :
    idle c open -> data_head open -> Forall plain fs -> forms_ok fs lfs ->
    ref_messages open fs = Some (ms, open') ->
    h_mask h = true -> h_op h < 16 -> form_ok lf (blen p) = true -> validate_err false h (blen p) = false ->
    length key = 4%nat ->
    let r := feedf cf app c (encode_all fs lfs ++ hdr_bytes_m h lf (blen p) ++ key ++ p ++ rest) in
    snd r <> SOk /\
    msg_events (k_tr (fst r)) = rev (map ev_of ms) ++ msg_events (k_tr c) /\
    exists crit, perrors (k_tr (fst r)) = crit :: perrors (k_tr c) /\
                 (crit = true -> h_op h = OP_TEXT \/ h_op h = OP_CONT).
  Proof.
    intros Hidle Hdh Hpl Hforms Href Hm Hop Hf Hv Hk.
    destruct (parser_error_after_prefix (fun e => e = PE_Protocol \/ (e = PE_Utf8 /\ (h_op h = OP_TEXT \/ h_op h = OP_CONT)))
                fs lfs c open ms open' (hdr_bytes_m h lf (blen p) ++ key ++ p ++ rest)
                Hidle Hdh Hpl Hforms Href) as (A & B & e & Qe & C).
    - intros s u Hab _.
      assert (Hlen : blen p < 9223372036854775808) by (destruct lf; cbn in Hf; apply N.ltb_lt in Hf; lia).
      destruct (pull_header_m s (is_text_msg open') u h lf (blen p) (key ++ p ++ rest) Hab Hop) as (g' & G1 & G2 & G3 & Hpull).
      { destruct lf; cbn in *; apply N.ltb_lt in Hf; apply N.ltb_lt; lia. }
      rewrite Hpull. unfold after_len. replace (9223372036854775807 <? blen p) with false by (symmetry; apply N.ltb_ge; lia).
      rewrite Hm. cbn [after_resume].
      assert (Hkne : key <> []) by (intros E; rewrite E in Hk; discriminate).
      pose proof (read_exact (set_phase g' (FMask h (blen p))) false key (p ++ rest) Hkne) as Hr. cbv zeta in Hr.
      change (blen key) with (N.of_nat (length key)) in Hr. rewrite Hk in Hr. change (N.of_nat 4) with 4 in Hr. rewrite Hr. clear Hr.
      unfold fp_resume at 1. cbn [fp_phase set_phase]. unfold after_mask. cbn [fp_compression set_phase]. rewrite G3, Hv.
      destruct (blen p =? 0) eqn:Ez.
      + unfold finish_frame. rewrite Hm. cbn [after_resume]. eauto.
      + apply N.eqb_neq in Ez.
        assert (Hne : p <> []) by (intros E; rewrite E in Ez; cbn in Ez; congruence).
        cbn [after_resume].
        match goal with |- context [fp_pull {| pg := ?g1; paw := AwBytes ?u1; prem := blen p; pbuf := [] |} (p ++ rest)] =>
          pose proof (read_exact g1 u1 p rest Hne) as Hr; set (tx := u1) in *; set (gp := g1) in * end.
        cbv zeta in Hr. rewrite Hr. clear Hr.
        destruct tx eqn:Etx.
        * unfold fp_validate. destruct (uvalidate (fp_u gp) p) as [u2|].
          -- unfold fp_resume. cbn [fp_phase gp set_phase]. unfold finish_frame. rewrite Hm. cbn [after_resume]. eauto.
          -- exists PE_Utf8. split; [reflexivity|]. right. split; [reflexivity|].
             unfold tx in Etx. cbn [negb andb] in Etx. rewrite andb_true_r in Etx.
             apply orb_true_iff in Etx. destruct Etx as [E|E]; [left; apply N.eqb_eq; exact E|].
             apply andb_true_iff in E. destruct E as [E _]. right. apply N.eqb_eq. exact E.
        * unfold fp_resume. cbn [fp_phase gp set_phase]. unfold finish_frame. rewrite Hm. cbn [after_resume]. eauto.
    - cbv zeta. split; [exact A|]. split; [exact B|]. exists (crit_of e). split; [exact C|].
      destruct Qe as [->|[-> Ho]]; cbn; [discriminate|auto].
  Qed.
End ParserViolation.

(* ====================================================================================================== *)
(* message-level violations of the Close frame: a one-byte payload, a reason that is not UTF-8, a reserved status code *)
Definition bad_close (p : bytes) (e : merr) : Prop :=
  (exists b, p = [b] /\ e = MProtocol) \/
  (exists a b reason, p = a :: b :: reason /\ utf8_validb reason = false /\ e = MCritical) \/
  (exists a b reason, p = a :: b :: reason /\ utf8_validb reason = true /\ invalid_close_code (be_decode [a; b]) = true /\ e = MProtocol).

Section CloseViolation.
  Variable cf : cfg.
  Variable app : strategy.
  Hypothesis app_benign : benign app.
  Hypothesis no_ping_timeout : zpos (c_ping_timeout cf) = None.

  Lemma bad_close_item c f e : f_rsv1 f = false -> f_op f = OP_CLOSE -> bad_close (f_payload f) e ->
    on_item cf app c (IFrame f) = (let '(c2, st) := raise_in_feed cf app c e in (c2, st, FBreak)).
  Proof.
    intros Hr Hop Hbad. unfold on_item, stream_frame. rewrite Hop. change (is_control OP_CLOSE) with true. cbv iota.
    rewrite (build_plain c [f] f [] eq_refl) by (constructor; [exact Hr|constructor]).
    cbv zeta. rewrite payload_of_one, Hop. change (OP_CLOSE =? OP_BINARY) with false. change (OP_CLOSE =? OP_TEXT) with false.
    change (OP_CLOSE =? OP_CLOSE) with true. cbv iota.
    destruct Hbad as [(b & -> & ->)|[(a & b & reason & -> & Hu & ->)|(a & b & reason & -> & Hu & Hc & ->)]].
    - reflexivity.
    - rewrite Hu. reflexivity.
    - rewrite Hu. apply reserved_close_code_raises. exact Hc.
  Qed.

  Theorem bad_close_after_prefix fs lfs c open ms open' f lf rest e :
    idle c open -> data_head open -> Forall plain fs -> forms_ok fs lfs ->
    ref_messages open fs = Some (ms, open') ->
    plain f -> f_op f = OP_CLOSE -> f_fin f = true -> blen (f_payload f) <= 125 -> form_ok lf (blen (f_payload f)) = true ->
    bad_close (f_payload f) e ->
    let r := feedf cf app c (encode_all fs lfs ++ enc_frame f lf ++ rest) in
    snd r <> SOk /\
    msg_events (k_tr (fst r)) = rev (map ev_of ms) ++ msg_events (k_tr c) /\
    perrors (k_tr (fst r)) = (match e with MCritical => true | MProtocol => false end) :: perrors (k_tr c).
  Proof.
    intros Hidle Hdh Hpl Hforms Href Hpf Hop Hfin Hlen Hform Hbad. cbv zeta.
    destruct (deliver_frames cf app app_benign no_ping_timeout fs lfs c open ms open' Hidle Hdh Hpl Hforms Href)
      as (c1 & E1 & Hidle1 & Hdh1 & M1 & _ & _).
    pose proof (feed_ok_no_protocol_error cf app c _ c1 E1) as P1.
    rewrite (feed_split cf app (length (encode_all fs lfs)) (encode_all fs lfs) (enc_frame f lf ++ rest) c (le_n _) (idle_ok c open Hidle)).
    unfold then_feed. rewrite E1. cbn [fst snd].
    destruct Hidle1 as (Hcl & Hcg & Hdf & Hsc & Hfr & Hrs & u & Hab & Hu).
    assert (Hv : validate_err false (hdr_of f) (blen (f_payload f)) = false).
    { unfold validate_err, hdr_of. cbn [h_r1 h_r2 h_r3 h_op h_fin]. rewrite Hop, Hfin.
      replace (125 <? blen (f_payload f)) with false by (symmetry; apply N.ltb_ge; exact Hlen). reflexivity. }
    assert (Hutf : textual f (is_text_msg open') = true -> uvalidate u (f_payload f) = Some u).
    { unfold textual. rewrite Hop. cbn. discriminate. }
    destruct (pull_one_frame (k_ps c1) (is_text_msg open') u f lf rest u Hab Hpf Hform Hv Hutf) as (s' & Hpull & _).
    rewrite feedf_unfold by (rewrite Hab; unfold fp_ok, st_ok; cbn; lia). unfold feed_body. rewrite Hcl, Hpull.
    rewrite (bad_close_item (c1 <| k_ps := s' |>) f e) by (try exact Hop; try exact Hbad; destruct Hpf as (A & _); exact A).
    pose proof (raise_in_feed_not_ok cf app (c1 <| k_ps := s' |>) e) as Hst.
    destruct (raise_in_feed_trace cf app (c1 <| k_ps := s' |>) e) as (l & El & Fl).
    destruct (raise_in_feed cf app (c1 <| k_ps := s' |>) e) as [c3 st]. cbn [fst snd] in *.
    change (k_tr (c1 <| k_ps := s' |>)) with (k_tr c1) in El.
    destruct st; try congruence; cbn [fst snd]; (split; [discriminate|]); rewrite El;
      (split; [rewrite housekeeping_no_msg by exact Fl; cbn [msg_events is_msg_ev]; exact M1
              |rewrite perrors_nope by (eapply Forall_impl; [exact housekeeping_nope|exact Fl]); cbn [perrors]; rewrite P1; reflexivity]).
  Qed.
End CloseViolation.

(* ====================================================================================================== *)
(* C05 at stream level: invalid UTF-8 in a text message *)
Lemma take_app_ge len (q rest : bytes) : blen q <= len -> exists x, take len (q ++ rest) = q ++ x.
Proof.
  intros H. rewrite take_firstn'. rewrite firstn_app. unfold blen in H.
  rewrite firstn_all2 by lia. eexists. reflexivity.
Qed.

Lemma pull_bad_text s t u h lf len q rest :
  at_boundary s t u -> h_mask h = false -> h_op h < 16 -> form_ok lf len = true -> validate_err false h len = false ->
  (h_op h =? OP_TEXT) || ((h_op h =? OP_CONT) && t) = true ->
  q <> [] -> blen q <= len -> uvalidate u q = None ->
  fp_pull s (hdr_bytes h lf len ++ q ++ rest) = Err PE_Utf8.
Proof.
  intros Hab Hm Hop Hf Hv Htx Hq Hlen Hbad.
  destruct (pull_header s t u h lf len (q ++ rest) Hab Hm Hop Hf) as (g' & G1 & G2 & G3 & Hpull).
  assert (Hl63 : len < 9223372036854775808) by (destruct lf; cbn in Hf; apply N.ltb_lt in Hf; lia).
  rewrite Hpull. unfold after_len. replace (9223372036854775807 <? len) with false by (symmetry; apply N.ltb_ge; lia).
  rewrite Hm. unfold after_mask. rewrite G3, Hv.
  assert (Hpos : 0 < len) by (unfold blen in Hlen; destruct q; [congruence|cbn in Hlen; lia]).
  replace (len =? 0) with false by (symmetry; apply N.eqb_neq; lia).
  cbn [after_resume set_phase fp_is_text fp_u fp_compression fp_phase negb].
  assert (Eu : ((h_op h =? OP_TEXT) || (h_op h =? OP_CONT) && (if h_op h =? OP_TEXT then true else fp_is_text g')) && true = true).
  { rewrite andb_true_r, G1. destruct (h_op h =? OP_TEXT); [reflexivity|exact Htx]. }
  rewrite Eu.
  match goal with |- fp_pull ?st _ = _ => set (sp := st) end.
  assert (Hok : fp_ok sp) by (unfold fp_ok, st_ok, sp; cbn; lia).
  rewrite fp_pull_unfold by exact Hok. unfold pull_body.
  destruct (q ++ rest) as [|x0 xs0] eqn:Eqr; [destruct q; [congruence|discriminate]|]. rewrite <- Eqr. clear Hpull. clear x0 xs0 Eqr.
  cbn [paw prem pg sp].
  destruct (take_app_ge len q rest Hlen) as (x & Ex). rewrite Ex.
  unfold fp_validate, set_phase. cbn [fp_u]. rewrite G2, uvalidate_app, Hbad. reflexivity.
Qed.

Section TextViolation.
  Variable cf : cfg.
  Variable app : strategy.
  Hypothesis app_benign : benign app.
  Hypothesis no_ping_timeout : zpos (c_ping_timeout cf) = None.

  (* fail-fast at stream level: after a conforming prefix, the header of a text frame -- a new TEXT frame, or a continuation
     of the open text message -- followed by payload bytes q (the frame need not be complete: blen q <= len) such that NO
     continuation of the message bytes received so far is well-formed UTF-8: the feed fails at once with one critical
     ProtocolError; nothing of the message is delivered *)
  Theorem text_failfast_after_prefix fs lfs c open ms open' h lf len q rest :
    idle c open -> data_head open -> Forall plain fs -> forms_ok fs lfs ->
    ref_messages open fs = Some (ms, open') ->
    h_mask h = false -> form_ok lf len = true -> validate_err false h len = false ->
    ((h_op h = OP_TEXT /\ open' = []) \/ (h_op h = OP_CONT /\ is_text_msg open' = true)) ->
    q <> [] -> blen q <= len -> ~ viable (payload_of open' ++ q) ->
    let r := feedf cf app c (encode_all fs lfs ++ hdr_bytes h lf len ++ q ++ rest) in
    snd r <> SOk /\
    msg_events (k_tr (fst r)) = rev (map ev_of ms) ++ msg_events (k_tr c) /\
    perrors (k_tr (fst r)) = true :: perrors (k_tr c).
  Proof.
    intros Hidle Hdh Hpl Hforms Href Hm Hf Hv Hcase Hq Hlen Hnv.
    destruct (parser_error_after_prefix cf app app_benign no_ping_timeout (fun e => e = PE_Utf8) fs lfs c open ms open'
                (hdr_bytes h lf len ++ q ++ rest) Hidle Hdh Hpl Hforms Href) as (A & B & e & -> & C).
    - intros s u Hab Hu. exists PE_Utf8. split; [|reflexivity].
      apply validate_rejects_iff_not_viable in Hnv. rewrite uvalidate_app in Hnv.
      assert (Hop : h_op h < 16) by (destruct Hcase as [[-> _]|[-> _]]; reflexivity).
      apply (pull_bad_text s (is_text_msg open') u h lf len q rest Hab Hm Hop Hf Hv); auto.
      + destruct Hcase as [[-> _]|[-> ->]]; reflexivity.
      + destruct Hcase as [[_ ->]|[_ Ht]].
        * cbn in Hu, Hnv. subst u. exact Hnv.
        * rewrite Ht in Hu. rewrite Hu in Hnv. exact Hnv.
    - cbv zeta. auto.
  Qed.

  (* a complete unfragmented TEXT frame whose payload is not well-formed UTF-8 (this includes a payload that ends inside a
     multi-byte character, which the streaming check lets through): one critical ProtocolError, no Text event *)
  Theorem invalid_text_after_prefix fs lfs c ms f lf rest :
    idle c [] -> Forall plain fs -> forms_ok fs lfs ->
    ref_messages [] fs = Some (ms, []) ->
    plain f -> f_op f = OP_TEXT -> f_fin f = true -> form_ok lf (blen (f_payload f)) = true ->
    ~ utf8_wf (f_payload f) ->
    let r := feedf cf app c (encode_all fs lfs ++ enc_frame f lf ++ rest) in
    snd r <> SOk /\
    msg_events (k_tr (fst r)) = rev (map ev_of ms) ++ msg_events (k_tr c) /\
    perrors (k_tr (fst r)) = true :: perrors (k_tr c).
  Proof.
    intros Hidle Hpl Hforms Href Hpf Hop Hfin Hform Hnwf.
    assert (Hv : validate_err false (hdr_of f) (blen (f_payload f)) = false).
    { unfold validate_err, hdr_of. cbn [h_r1 h_r2 h_r3 h_op h_fin]. rewrite Hop, Hfin. reflexivity. }
    destruct (uvalidate UAcc (f_payload f)) as [u'|] eqn:Eu.
    - (* the streaming check passes: the message is refused when it is assembled *)
      cbv zeta.
      destruct (deliver_frames cf app app_benign no_ping_timeout fs lfs c [] ms [] Hidle I Hpl Hforms Href)
        as (c1 & E1 & Hidle1 & Hdh1 & M1 & _ & _).
      pose proof (feed_ok_no_protocol_error cf app c _ c1 E1) as P1.
      rewrite (feed_split cf app (length (encode_all fs lfs)) (encode_all fs lfs) (enc_frame f lf ++ rest) c (le_n _) (idle_ok c [] Hidle)).
      unfold then_feed. rewrite E1. cbn [fst snd].
      destruct Hidle1 as (Hcl & Hcg & Hdf & Hsc & Hfr & Hrs & u & Hab & Hu). cbn in Hu. subst u.
      destruct (pull_one_frame (k_ps c1) false UAcc f lf rest u' Hab Hpf Hform Hv (fun _ => Eu)) as (s' & Hpull & _).
      rewrite feedf_unfold by (rewrite Hab; unfold fp_ok, st_ok; cbn; lia). unfold feed_body. rewrite Hcl, Hpull.
      assert (Hitem : on_item cf app (c1 <| k_ps := s' |>) (IFrame f) =
                      (let '(c2, st) := raise_in_feed cf app (c1 <| k_ps := s' |>) MCritical in (c2, st, FBreak))).
      { unfold on_item, stream_frame. rewrite Hop, Hfin. change (is_control OP_TEXT) with false. change (OP_TEXT =? OP_CONT) with false.
        change (k_frames (c1 <| k_ps := s' |>)) with (k_frames c1). rewrite Hfr. cbv iota.
        rewrite (build_plain (c1 <| k_ps := s' |>) [f] f [] eq_refl) by (constructor; [destruct Hpf as (A & _); exact A|constructor]).
        cbv zeta. rewrite payload_of_one, Hop. change (OP_TEXT =? OP_BINARY) with false. change (OP_TEXT =? OP_TEXT) with true. cbv iota.
        destruct (utf8_validb (f_payload f)) eqn:Evb; [apply validb_iff_wf in Evb; contradiction|reflexivity]. }
      rewrite Hitem.
      pose proof (raise_in_feed_not_ok cf app (c1 <| k_ps := s' |>) MCritical) as Hst.
      destruct (raise_in_feed_trace cf app (c1 <| k_ps := s' |>) MCritical) as (l & El & Fl).
      destruct (raise_in_feed cf app (c1 <| k_ps := s' |>) MCritical) as [c3 st]. cbn [fst snd] in *.
      change (k_tr (c1 <| k_ps := s' |>)) with (k_tr c1) in El.
      destruct st; try congruence; cbn [fst snd]; (split; [discriminate|]); rewrite El;
        (split; [rewrite housekeeping_no_msg by exact Fl; cbn [msg_events is_msg_ev]; exact M1
                |rewrite perrors_nope by (eapply Forall_impl; [exact housekeeping_nope|exact Fl]); cbn [perrors]; rewrite P1; reflexivity]).
    - (* the streaming check fails: the parser refuses the payload *)
      assert (Hne : f_payload f <> []) by (intros E; rewrite E in Eu; discriminate).
      pose proof Hpf as (P1 & P2 & P3 & P4 & P5 & P6).
      assert (Henc : enc_frame f lf ++ rest = hdr_bytes (hdr_of f) lf (blen (f_payload f)) ++ f_payload f ++ rest).
      { unfold enc_frame, hdr_bytes, hdr_of. rewrite P1, P2, P3, P4. cbn [h_fin h_r1 h_r2 h_r3 h_op]. cbn [List.app]. rewrite <- app_assoc. reflexivity. }
      rewrite Henc.
      assert (Hnv : ~ viable (payload_of [] ++ f_payload f)).
      { cbn [payload_of map concat List.app]. apply validate_rejects_iff_not_viable. exact Eu. }
      exact (text_failfast_after_prefix fs lfs c [] ms [] (hdr_of f) lf (blen (f_payload f)) (f_payload f) rest
               Hidle I Hpl Hforms Href eq_refl Hform Hv (or_introl (conj Hop eq_refl)) Hne (N.le_refl _) Hnv).
  Qed.
End TextViolation.
