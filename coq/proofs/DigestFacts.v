(* Facts about the model's base64 and SHA-1 (Digest.v): base64 is decodable (hence injective), its output has the
   RFC 4648 length and alphabet, SHA-1 pads to whole blocks and returns 20 bytes; the handshake key is 24 characters, the
   expected accept value 28, neither can contain a byte that would break a header line. *)
From Coq Require Import String.
From Coq Require Import List NArith Arith Bool Lia ZArith ZifyBool ZifyN ZifyNat.
From Coq.Strings Require Import Byte.
From Model Require Import Bytes Digest.
From Proofs Require Import BytesFacts FrameFacts.
Import ListNotations.
Open Scope N_scope.

Ltac Zify.zify_post_hook ::= Z.to_euclidean_division_equations.

(* ---------- the alphabet ---------- *)
Definition range64 : list N := map N.of_nat (seq 0 64).
Lemma in_range64 n : n < 64 -> In n range64.
Proof. intros H. unfold range64. apply in_map_iff. exists (N.to_nat n). split; [lia|]. apply in_seq. lia. Qed.

Lemma b64_val_char n : n < 64 -> b64_val (b64_char n) = Some n.
Proof.
  intros H.
  assert (A : forallb (fun k => match b64_val (b64_char k) with Some v => v =? k | None => false end) range64 = true)
    by (vm_compute; reflexivity).
  rewrite forallb_forall in A. specialize (A n (in_range64 n H)).
  destruct (b64_val (b64_char n)) as [v|]; [|discriminate]. apply N.eqb_eq in A. congruence.
Qed.

Lemma b64_char_not_pad n : n < 64 -> Byte.eqb (b64_char n) b64_pad = false.
Proof.
  intros H.
  assert (A : forallb (fun k => negb (Byte.eqb (b64_char k) b64_pad)) range64 = true) by (vm_compute; reflexivity).
  rewrite forallb_forall in A. specialize (A n (in_range64 n H)). apply negb_true_iff in A. exact A.
Qed.

Lemma b64_char_in n : n < 64 -> In (b64_char n) b64_alphabet.
Proof.
  intros H. unfold b64_char. apply nth_In.
  assert (L : length b64_alphabet = 64%nat) by reflexivity. rewrite L. lia.
Qed.

Lemma b64_val_lt c v : b64_val c = Some v -> v < 64.
Proof.
  unfold b64_val. intros H.
  repeat match type of H with
         | (if ?b then _ else _) = _ => destruct b eqn:?
         end; inversion H; subst; lia.
Qed.

(* ---------- arithmetic of one 24-bit group ---------- *)
Lemma group_lt a b c : a < 256 -> b < 256 -> c < 256 ->
  let n := a * 65536 + b * 256 + c in
  n / 262144 < 64 /\ (n / 4096) mod 64 < 64 /\ (n / 64) mod 64 < 64 /\ n mod 64 < 64.
Proof. intros; subst n; repeat split; try (apply N.mod_lt; lia). apply N.div_lt_upper_bound; lia. Qed.

Lemma group_back a b c : a < 256 -> b < 256 -> c < 256 ->
  let n := a * 65536 + b * 256 + c in
  let v1 := n / 262144 in let v2 := (n / 4096) mod 64 in let v3 := (n / 64) mod 64 in let v4 := n mod 64 in
  v1 * 4 + v2 / 16 = a /\ (v2 mod 16) * 16 + v3 / 4 = b /\ (v3 mod 4) * 64 + v4 = c /\
  (c = 0 -> v3 mod 4 = 0) /\ (b = 0 -> c = 0 -> v2 mod 16 = 0).
Proof. intros Ha Hb Hc. cbv zeta. repeat split; intros; lia. Qed.

(* ---------- decoding ---------- *)
Lemma decode_full c1 c2 c3 c4 t :
  Byte.eqb c3 b64_pad = false -> Byte.eqb c4 b64_pad = false ->
  b64_decode (c1 :: c2 :: c3 :: c4 :: t) =
  match b64_val c1, b64_val c2, b64_val c3, b64_val c4, b64_decode t with
  | Some v1, Some v2, Some v3, Some v4, Some r =>
      Some (n2b (v1 * 4 + v2 / 16) :: n2b ((v2 mod 16) * 16 + v3 / 4) :: n2b ((v3 mod 4) * 64 + v4) :: r)
  | _, _, _, _, _ => None
  end.
Proof.
  intros H3 H4. destruct t as [|x t]; [|reflexivity].
  cbn [b64_decode]. rewrite H3, H4.
  destruct (b64_val c1), (b64_val c2), (b64_val c3), (b64_val c4); reflexivity.
Qed.

Theorem b64_decode_encode : forall l, b64_decode (b64_encode l) = Some l.
Proof.
  assert (S3 : forall n l, (length l <= n)%nat -> b64_decode (b64_encode l) = Some l).
  { induction n as [|n IH]; intros l L.
    - destruct l; [reflexivity|simpl in L; lia].
    - destruct l as [|a [|b [|c t]]].
      + reflexivity.
      + (* one byte *)
        pose proof (b2n_lt a) as Ha.
        pose proof (group_lt (b2n a) 0 0 Ha ltac:(lia) ltac:(lia)) as (G1 & G2 & _).
        pose proof (group_back (b2n a) 0 0 Ha ltac:(lia) ltac:(lia)) as (B1 & _ & _ & _ & B5).
        cbv zeta in G1, G2, B1, B5. rewrite !N.mul_0_l, !N.add_0_r in G1, G2, B1, B5.
        cbn [b64_encode b64_decode].
        rewrite (b64_val_char _ G1), (b64_val_char _ G2).
        change (Byte.eqb b64_pad b64_pad) with true. cbn [andb].
        rewrite B5 by reflexivity. cbn [N.eqb]. rewrite B1, n2b_b2n. reflexivity.
      + (* two bytes *)
        pose proof (b2n_lt a) as Ha. pose proof (b2n_lt b) as Hb.
        pose proof (group_lt (b2n a) (b2n b) 0 Ha Hb ltac:(lia)) as (G1 & G2 & G3 & _).
        pose proof (group_back (b2n a) (b2n b) 0 Ha Hb ltac:(lia)) as (B1 & B2 & _ & B4 & _).
        cbv zeta in G1, G2, G3, B1, B2, B4. rewrite !N.add_0_r in G1, G2, G3, B1, B2, B4.
        cbn [b64_encode b64_decode].
        rewrite (b64_val_char _ G1), (b64_val_char _ G2), (b64_char_not_pad _ G3), (b64_val_char _ G3).
        change (Byte.eqb b64_pad b64_pad) with true. cbv iota.
        rewrite B4 by reflexivity. cbn [N.eqb]. rewrite B1, B2, !n2b_b2n. reflexivity.
      + (* a full group *)
        pose proof (b2n_lt a) as Ha. pose proof (b2n_lt b) as Hb. pose proof (b2n_lt c) as Hc.
        pose proof (group_lt _ _ _ Ha Hb Hc) as (G1 & G2 & G3 & G4).
        pose proof (group_back _ _ _ Ha Hb Hc) as (B1 & B2 & B3 & _).
        cbv zeta in G1, G2, G3, G4, B1, B2, B3.
        cbn [b64_encode]. cbv zeta.
        rewrite decode_full by (apply b64_char_not_pad; assumption).
        rewrite (b64_val_char _ G1), (b64_val_char _ G2), (b64_val_char _ G3), (b64_val_char _ G4).
        rewrite IH by (simpl in L; lia).
        rewrite B1, B2, B3, !n2b_b2n. reflexivity. }
  intros l. apply (S3 (length l)). lia.
Qed.

Corollary b64_encode_inj a b : b64_encode a = b64_encode b -> a = b.
Proof.
  intros H. pose proof (b64_decode_encode a) as Ha. rewrite H, b64_decode_encode in Ha. congruence.
Qed.

(* ---------- shape of the output ---------- *)
Theorem b64_encode_length : forall l, length (b64_encode l) = (4 * ((length l + 2) / 3))%nat.
Proof.
  assert (S3 : forall n l, (length l <= n)%nat -> length (b64_encode l) = (4 * ((length l + 2) / 3))%nat).
  { induction n as [|n IH]; intros l L.
    - destruct l; [reflexivity|simpl in L; lia].
    - destruct l as [|a [|b [|c t]]]; try reflexivity.
      cbn [b64_encode]. cbv zeta. cbn [length]. rewrite IH by (simpl in L; lia).
      replace (S (S (S (length t))) + 2)%nat with ((length t + 2) + 1 * 3)%nat by lia.
      rewrite Nat.div_add by lia. lia. }
  intros l. apply (S3 (length l)). lia.
Qed.

Definition b64_ok (c : byte) : Prop := In c b64_alphabet \/ c = b64_pad.

Theorem b64_encode_alphabet : forall l, Forall b64_ok (b64_encode l).
Proof.
  assert (S3 : forall n l, (length l <= n)%nat -> Forall b64_ok (b64_encode l)).
  { induction n as [|n IH]; intros l L.
    - destruct l; [constructor|simpl in L; lia].
    - destruct l as [|a [|b [|c t]]].
      + constructor.
      + pose proof (b2n_lt a) as Ha.
        pose proof (group_lt (b2n a) 0 0 Ha ltac:(lia) ltac:(lia)) as (G1 & G2 & _).
        cbv zeta in G1, G2. rewrite !N.mul_0_l, !N.add_0_r in G1, G2.
        cbn [b64_encode]. cbv zeta.
        apply Forall_cons; [left; apply b64_char_in; assumption|].
        apply Forall_cons; [left; apply b64_char_in; assumption|].
        apply Forall_cons; [right; reflexivity|]. apply Forall_cons; [right; reflexivity|]. apply Forall_nil.
      + pose proof (b2n_lt a) as Ha. pose proof (b2n_lt b) as Hb.
        pose proof (group_lt (b2n a) (b2n b) 0 Ha Hb ltac:(lia)) as (G1 & G2 & G3 & _).
        cbv zeta in G1, G2, G3. rewrite !N.add_0_r in G1, G2, G3.
        cbn [b64_encode]. cbv zeta.
        apply Forall_cons; [left; apply b64_char_in; assumption|].
        apply Forall_cons; [left; apply b64_char_in; assumption|].
        apply Forall_cons; [left; apply b64_char_in; assumption|].
        apply Forall_cons; [right; reflexivity|]. apply Forall_nil.
      + pose proof (b2n_lt a) as Ha. pose proof (b2n_lt b) as Hb. pose proof (b2n_lt c) as Hc.
        pose proof (group_lt _ _ _ Ha Hb Hc) as (G1 & G2 & G3 & G4). cbv zeta in G1, G2, G3, G4.
        cbn [b64_encode]. cbv zeta.
        do 4 (apply Forall_cons; [left; apply b64_char_in; assumption|]).
        apply IH. simpl in L; lia. }
  intros l. apply (S3 (length l)). lia.
Qed.

(* no base64 character is a control character, a blank, a colon or a comma: a key or an accept value cannot end or
   split a header line *)
Lemma b64_ok_header_safe c : b64_ok c -> c <> CR /\ c <> LF /\ c <> SP /\ c <> HT /\ c <> COLON /\ c <> x2c.
Proof.
  intros [H|H].
  - assert (A : forallb (fun x => negb (Byte.eqb x CR) && negb (Byte.eqb x LF) && negb (Byte.eqb x SP) && negb (Byte.eqb x HT)
                                && negb (Byte.eqb x COLON) && negb (Byte.eqb x x2c)) b64_alphabet = true) by (vm_compute; reflexivity).
    rewrite forallb_forall in A. specialize (A c H).
    repeat (apply andb_true_iff in A as [A ?]).
    repeat split; intros ->; discriminate.
  - subst c. repeat split; discriminate.
Qed.

(* ---------- SHA-1 ---------- *)
Lemma be_encode_length w n : length (be_encode w n) = w.
Proof. revert n; induction w as [|w IH]; intros n; cbn [be_encode]; [reflexivity|]. rewrite app_length, IH. simpl. lia. Qed.

Theorem sha1_length : forall m, length (sha1 m) = 20%nat.
Proof.
  intros m. unfold sha1.
  destruct (sha1_blocks _ sha1_init (sha1_pad m)) as [[[[a b] c] d] e].
  rewrite !app_length, !be_encode_length. reflexivity.
Qed.

Theorem sha1_pad_length : forall m,
  (length (sha1_pad m) mod 64 = 0)%nat /\ (length m + 9 <= length (sha1_pad m) < length m + 9 + 64)%nat.
Proof.
  intros m. unfold sha1_pad, blen.
  rewrite app_length. cbn [length]. rewrite app_length, repeat_length, be_encode_length.
  set (L := length m).
  assert (E : N.to_nat ((119 - N.of_nat L mod 64) mod 64) = ((119 - L mod 64) mod 64)%nat) by lia.
  rewrite E. split; lia.
Qed.

(* the padded message starts with the message and carries its bit length in the last eight bytes: two messages with
   the same padding are equal *)
Theorem sha1_pad_prefix : forall m, firstn (length m) (sha1_pad m) = m.
Proof. intros m. unfold sha1_pad. rewrite firstn_app, Nat.sub_diag, firstn_all. cbn [firstn]. apply app_nil_r. Qed.

(* ---------- handshake values ---------- *)
Theorem make_key_length : forall r, length r = 16%nat -> length (make_key r) = 24%nat.
Proof. intros r H. unfold make_key. rewrite b64_encode_length, H. reflexivity. Qed.

Theorem accept_of_length : forall k, length (accept_of k) = 28%nat.
Proof. intros k. unfold accept_of. rewrite b64_encode_length, sha1_length. reflexivity. Qed.

Theorem make_key_inj : forall r r', make_key r = make_key r' -> r = r'.
Proof. intros r r'. apply b64_encode_inj. Qed.

Theorem make_key_header_safe : forall r, Forall (fun c => c <> CR /\ c <> LF /\ c <> SP /\ c <> HT /\ c <> COLON /\ c <> x2c) (make_key r).
Proof.
  intros r. eapply Forall_impl; [|apply b64_encode_alphabet]. intros c. apply b64_ok_header_safe.
Qed.

Theorem accept_of_header_safe : forall k, Forall (fun c => c <> CR /\ c <> LF /\ c <> SP /\ c <> HT /\ c <> COLON /\ c <> x2c) (accept_of k).
Proof.
  intros k. eapply Forall_impl; [|apply b64_encode_alphabet]. intros c. apply b64_ok_header_safe.
Qed.

(* RFC 6455 section 1.3 and FIPS 180-4 / RFC 3174 test vectors *)
Example rfc6455_sample :
  accept_of (str "dGhlIHNhbXBsZSBub25jZQ=="%string) = str "s3pPLMBiTxaQ9kYGzzhZRbK+xOo="%string.
Proof. vm_compute. reflexivity. Qed.
Example sha1_abc : map b2n (sha1 (str "abc"%string)) =
  [169; 153; 62; 54; 71; 6; 129; 106; 186; 62; 37; 113; 120; 80; 194; 108; 156; 208; 216; 157].
Proof. vm_compute. reflexivity. Qed.
Example sha1_two_blocks :
  map b2n (sha1 (str "abcdbcdecdefdefgefghfghighijhijkijkljklmklmnlmnomnopnopq"%string)) =
  [132; 152; 62; 68; 28; 59; 210; 110; 186; 174; 74; 161; 249; 81; 41; 229; 229; 70; 112; 241].
Proof. vm_compute. reflexivity. Qed.
Example sha1_empty : map b2n (sha1 []) =
  [218; 57; 163; 238; 94; 107; 75; 13; 50; 85; 191; 239; 149; 96; 24; 144; 175; 216; 7; 9].
Proof. vm_compute. reflexivity. Qed.

(* the padding is a faithful encoding: two messages (shorter than 2^61 bytes) with the same padded form are equal -- whatever
   makes two keys share a digest, it is not the padding *)
Lemma be_encode8_inj a b : a < 18446744073709551616 -> b < 18446744073709551616 -> be_encode 8 a = be_encode 8 b -> a = b.
Proof.
  intros Ha Hb H. rewrite <- (Proofs.FrameFacts.be_roundtrip 8 a), <- (Proofs.FrameFacts.be_roundtrip 8 b) by assumption.
  rewrite H. reflexivity.
Qed.

Lemma sha1_pad_tail m : skipn (length (sha1_pad m) - 8) (sha1_pad m) = be_encode 8 (8 * blen m).
Proof.
  unfold sha1_pad.
  set (z := repeat x00 (N.to_nat ((119 - blen m mod 64) mod 64))).
  change (m ++ x80 :: z ++ be_encode 8 (8 * blen m)) with (m ++ (x80 :: z) ++ be_encode 8 (8 * blen m)).
  rewrite app_assoc. rewrite app_length, be_encode_length.
  replace (length (m ++ x80 :: z) + 8 - 8)%nat with (length (m ++ x80 :: z)) by lia.
  rewrite skipn_app, skipn_all, Nat.sub_diag. reflexivity.
Qed.

Theorem sha1_pad_inj m m' : blen m < 2305843009213693952 -> blen m' < 2305843009213693952 ->
  sha1_pad m = sha1_pad m' -> m = m'.
Proof.
  intros Hm Hm' H.
  assert (T : be_encode 8 (8 * blen m) = be_encode 8 (8 * blen m')).
  { rewrite <- !sha1_pad_tail, H. reflexivity. }
  apply be_encode8_inj in T; [|lia|lia].
  assert (L : length m = length m') by (unfold blen in T; lia).
  rewrite <- (sha1_pad_prefix m), <- (sha1_pad_prefix m'), H, L. reflexivity.
Qed.
