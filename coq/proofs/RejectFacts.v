(* C10: a reply that the handshake decision rejects yields no Ready and no message event, whatever the application does,
   and the socket is closed. *)
From Coq Require Import List NArith ZArith Lia Bool.
From Coq.Strings Require Import Byte.
From RecordUpdate Require Import RecordSet.
From Model Require Import Bytes Utf8 Frame Parser FrameParser Response Conn.
From Proofs Require Import ParserFacts FrameParserFacts ConnFacts ApiFacts TraceFacts RunFacts ShapeFacts CloseFacts ReadyFacts DeliveryFacts HandshakeFacts.
Import ListNotations RecordSetNotations.
Open Scope N_scope.

Section Reject.
  Variable cf : cfg.
  Variable app : strategy.

  (* nothing has been fed yet, nothing that needs Ready has happened *)
  Definition fresh (c : conn) : Prop := k_ready c = false /\ k_ps c = fp_init /\ rstate (k_tr c) = Some false.

  Lemma fresh_same c c' : k_ready c' = k_ready c -> k_ps c' = k_ps c -> ext_by before_item c c' -> fresh c -> fresh c'.
  Proof.
    intros R P (l & E & F) (R0 & P0 & T0). split; [congruence|]. split; [congruence|].
    rewrite E. apply rstate_before; assumption.
  Qed.
  Lemma fresh_deliver c e : ev_step false e = Some false -> fresh c -> fresh (fst (deliver app c e)).
  Proof.
    intros He Hp. apply (fresh_same c); [apply sr_deliver|apply ps_deliver| |exact Hp].
    destruct (deliver_trace app c e) as (l & E & F). exists (l ++ [TEv e]). split; [rewrite E, <- app_assoc; reflexivity|].
    apply Forall_app; split; [eapply Forall_impl; [exact not_event_before|exact F]|]. constructor; [exact He|constructor].
  Qed.
  Lemma fresh_close_socket c : fresh c -> fresh (close_socket c).
  Proof.
    intros Hp. apply (fresh_same c); [apply sr_close_socket|apply ps_close_socket| |exact Hp].
    eapply ext_weaken; [exact not_event_before|apply ext_close_socket].
  Qed.

  Definition calm (c : conn) : Prop := rstate (k_tr c) = Some false.
  Lemma fresh_calm c : fresh c -> calm c.
  Proof. intros (_ & _ & T). exact T. Qed.
  Lemma calm_finish c st : calm c -> calm (finish app c st).
  Proof. unfold calm. rewrite finish_rstate. auto. Qed.
  Lemma calm_close_socket c : calm c -> calm (close_socket c).
  Proof.
    unfold calm. destruct (ext_close_socket c) as (l & E & F). rewrite E.
    rewrite rstate_both by (eapply Forall_impl; [exact not_event_both|exact F]). auto.
  Qed.

  (* feeding the rejected reply *)
  Lemma feed_rejected c reply : fresh c -> k_closed c = false -> reply_block reply ->
    on_response (c_accept cf) (parse_response reply) = HRejected ->
    calm (fst (feedf cf app c reply)) /\ (snd (feedf cf app c reply) = SOk -> k_closed (fst (feedf cf app c reply)) = true).
  Proof.
    intros (R & P & T) Hcl Hrb Hresp.
    destruct (pull_reply reply Hrb) as (s' & Hpull & _).
    rewrite feedf_unfold by (rewrite P; exact fp_init_ok). unfold feed_body. rewrite Hcl, P, Hpull.
    unfold on_item. rewrite Hresp.
    set (c1 := on_disconnect (c <| k_ps := s' |>)).
    assert (R1 : k_ready c1 = false) by (unfold c1; rewrite sr_on_disconnect; exact R).
    assert (T1 : rstate (k_tr c1) = Some false).
    { destruct (ext_on_disconnect (c <| k_ps := s' |>)) as (l & E & F). unfold c1. rewrite E.
      apply rstate_before; [eapply Forall_impl; [exact not_event_before|exact F]|exact T]. }
    destruct (bf_feed_yield cf app c1 EvRejected (fun c => (c, SOk)) I R1) as [(l & E & F) R2].
    { intros c2 Hc2. cbn [fst]. split; [apply ext_refl|exact Hc2]. }
    pose proof (closed_feed_yield cf app c1 EvRejected (fun c => (c, SOk))) as Hclosed.
    specialize (Hclosed ltac:(intros c2 Hc2; exact Hc2) eq_refl).
    destruct (feed_yield cf app c1 EvRejected (fun c => (c, SOk))) as [c2 st]. cbn [fst snd] in *.
    assert (T2 : calm c2) by (unfold calm; rewrite E; apply rstate_before; assumption).
    destruct st; cbn [fst snd]; (split; [exact T2|]); intros H; try discriminate; exact Hclosed.
  Qed.

  Theorem rejected_run keys wf zt ct dt0 reply rest :
    reply_block reply -> on_response (c_accept cf) (parse_response reply) = HRejected ->
    Forall quiet (evs (k_tr (run cf app (init keys wf zt ct) CnOk (StRead dt0 (RData reply) :: rest)))).
  Proof.
    intros Hrb Hresp. apply rstate_false.
    assert (P0 : fresh (init keys wf zt ct)) by (repeat split; reflexivity).
    assert (W : forall c, calm c -> calm (if k_with c then close_socket c else c)).
    { intros c H. destruct (k_with c); [apply calm_close_socket; exact H|exact H]. }
    unfold run. apply W. unfold run_gen.
    pose proof (fresh_deliver _ EvConnecting eq_refl P0) as P1.
    destruct (deliver app (init keys wf zt ct) EvConnecting) as [c1 st1]. cbn [fst] in P1.
    destruct st1; [|apply fresh_calm; exact P1..].
    set (c2 := c1 <| k_sock := true |>).
    assert (P2 : fresh c2) by exact P1.
    match goal with |- context [let '(c3, r) := ?X in _] => destruct X as [c3 r] eqn:EX end.
    assert (P3 : fresh c3).
    { destruct (negb (k_sock c2)); [inversion EX; subst; exact P2|].
      destruct (k_closed c2); [inversion EX; subst; exact P2|]. destruct (k_closing c2); [inversion EX; subst; exact P2|].
      unfold pop_wfault in EX. destruct (k_wfaults c2) as [|w ws]; [inversion EX; subst; exact P2|].
      destruct w; inversion EX; subst; exact P2. }
    destruct r as [x|].
    { pose proof (fresh_deliver (close_socket c3) EvConnectFail eq_refl (fresh_close_socket c3 P3)) as P4.
      destruct (deliver app (close_socket c3) EvConnectFail) as [c4 st4]. apply fresh_calm. exact P4. }
    pose proof (fresh_deliver c3 EvConnected eq_refl P3) as P4.
    destruct (deliver app c3 EvConnected) as [c4 st4]. cbn [fst] in P4.
    destruct st4; [|apply calm_close_socket; apply fresh_calm; exact P4..].
    (* the loop: the first read delivers the reply *)
    cbn [loop]. destruct (k_closed c4) eqn:Ecl; [apply calm_finish; apply fresh_calm; exact P4|].
    assert (Er : regular cf app (advance c4 dt0) = (advance c4 dt0, SOk)).
    { apply regular_not_ready. destruct P4 as (R & _). exact R. }
    rewrite Er.
    assert (P5 : fresh (advance c4 dt0)) by exact P4.
    destruct (k_sock (advance c4 dt0)).
    2:{ destruct (is_active (advance c4 dt0)); apply calm_finish; apply fresh_calm; exact P5. }
    destruct Hrb as (i & Hf & Hi & Hl). assert (Hrb : reply_block reply) by (exists i; auto).
    destruct reply as [|r0 reply']; [cbn in Hf; discriminate|].
    destruct (feed_rejected (advance c4 dt0) (r0 :: reply') P5 Ecl Hrb Hresp) as [C6 K6].
    destruct (feedf cf app (advance c4 dt0) (r0 :: reply')) as [c6 st6]. cbn [fst snd] in *.
    destruct st6; [|apply calm_finish; exact C6..].
    rewrite (closed_ends_gracefully cf app rest c6 (K6 eq_refl)). apply calm_finish. exact C6.
  Qed.
  (* an over-long header block (terminated or not) in the first read: ProtocolError, and nothing that needs Ready *)
  Lemma feed_too_long c d : fresh c -> k_closed c = false ->
    16384 < N.of_nat (length d) -> (forall i, find_sep CRLFCRLF d = Some i -> 16384 < N.of_nat (i + 4)) ->
    calm (fst (feedf cf app c d)) /\ snd (feedf cf app c d) <> SOk.
  Proof.
    intros (R & P & T) Hcl Hlen Hsep.
    rewrite feedf_unfold by (rewrite P; exact fp_init_ok). unfold feed_body. rewrite Hcl, P.
    rewrite (HandshakeFacts.header_block_too_long d Hlen Hsep).
    set (c1 := c <| k_ps := fp_init |>).
    assert (R1 : k_ready c1 = false) by exact R.
    destruct (bf_raise_in_feed cf app c1 (perr_to_merr PE_HeaderTooLong) R1) as [(l & E & F) R2].
    split; [|apply raise_in_feed_not_ok].
    unfold calm. rewrite E. apply rstate_before; [exact F|exact T].
  Qed.

  Theorem too_long_run keys wf zt ct dt0 d rest :
    16384 < N.of_nat (length d) -> (forall i, find_sep CRLFCRLF d = Some i -> 16384 < N.of_nat (i + 4)) ->
    Forall quiet (evs (k_tr (run cf app (init keys wf zt ct) CnOk (StRead dt0 (RData d) :: rest)))).
  Proof.
    intros Hlen Hsep. apply rstate_false.
    assert (P0 : fresh (init keys wf zt ct)) by (repeat split; reflexivity).
    assert (W : forall c, calm c -> calm (if k_with c then close_socket c else c)).
    { intros c H. destruct (k_with c); [apply calm_close_socket; exact H|exact H]. }
    unfold run. apply W. unfold run_gen.
    pose proof (fresh_deliver _ EvConnecting eq_refl P0) as P1.
    destruct (deliver app (init keys wf zt ct) EvConnecting) as [c1 st1]. cbn [fst] in P1.
    destruct st1; [|apply fresh_calm; exact P1..].
    set (c2 := c1 <| k_sock := true |>).
    assert (P2 : fresh c2) by exact P1.
    match goal with |- context [let '(c3, r) := ?X in _] => destruct X as [c3 r] eqn:EX end.
    assert (P3 : fresh c3).
    { destruct (negb (k_sock c2)); [inversion EX; subst; exact P2|].
      destruct (k_closed c2); [inversion EX; subst; exact P2|]. destruct (k_closing c2); [inversion EX; subst; exact P2|].
      unfold pop_wfault in EX. destruct (k_wfaults c2) as [|w ws]; [inversion EX; subst; exact P2|].
      destruct w; inversion EX; subst; exact P2. }
    destruct r as [x|].
    { pose proof (fresh_deliver (close_socket c3) EvConnectFail eq_refl (fresh_close_socket c3 P3)) as P4.
      destruct (deliver app (close_socket c3) EvConnectFail) as [c4 st4]. apply fresh_calm. exact P4. }
    pose proof (fresh_deliver c3 EvConnected eq_refl P3) as P4.
    destruct (deliver app c3 EvConnected) as [c4 st4]. cbn [fst] in P4.
    destruct st4; [|apply calm_close_socket; apply fresh_calm; exact P4..].
    cbn [loop]. destruct (k_closed c4) eqn:Ecl; [apply calm_finish; apply fresh_calm; exact P4|].
    assert (Er : regular cf app (advance c4 dt0) = (advance c4 dt0, SOk)).
    { apply regular_not_ready. destruct P4 as (R & _). exact R. }
    rewrite Er.
    assert (P5 : fresh (advance c4 dt0)) by exact P4.
    destruct (k_sock (advance c4 dt0)).
    2:{ destruct (is_active (advance c4 dt0)); apply calm_finish; apply fresh_calm; exact P5. }
    destruct d as [|d0 d']; [cbn in Hlen; lia|].
    destruct (feed_too_long (advance c4 dt0) (d0 :: d') P5 Ecl Hlen Hsep) as [C6 K6].
    destruct (feedf cf app (advance c4 dt0) (d0 :: d')) as [c6 st6]. cbn [fst snd] in *.
    destruct st6; [congruence|apply calm_finish; exact C6..].
  Qed.
End Reject.
