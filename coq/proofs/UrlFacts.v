(* The URL reading of Url.v inverts the rendering of a URL from its components: for every scheme, optional user name and
   password, host, optional port, path, optional query and optional fragment that are free of the delimiters of the
   positions after them, parse_url gives back exactly those components (scheme and host in lower case, the fragment
   dropped) -- so the target of the connection and the request line are functions of the components, not of the way the
   URL happens to be spelled. *)
From Coq Require Import String.
From Coq Require Import List NArith Arith Bool Lia ZArith ZifyBool ZifyN ZifyNat.
From Coq.Strings Require Import Byte.
From Model Require Import Bytes Response Handshake Url.
From Proofs Require Import BytesFacts.
Import ListNotations.
Open Scope N_scope.

Ltac Zify.zify_post_hook ::= Z.to_euclidean_division_equations.

Lemma byte_eqb_refl x : Byte.eqb x x = true.
Proof. apply Byte.byte_dec_lb. reflexivity. Qed.
Lemma byte_eqb_neq x y : x <> y -> Byte.eqb x y = false.
Proof. intros H. destruct (Byte.eqb x y) eqn:E; [|reflexivity]. apply Byte.byte_dec_bl in E. contradiction. Qed.

(* ---------- partition / rpartition / split_netloc ---------- *)
Lemma partition_found c a b : ~ In c a -> partition c (a ++ c :: b) = (a, true, b).
Proof.
  induction a as [|x a IH]; intros H; cbn [app partition].
  - rewrite byte_eqb_refl. reflexivity.
  - rewrite byte_eqb_neq by (intros ->; apply H; left; reflexivity).
    rewrite IH by (intros K; apply H; right; exact K). reflexivity.
Qed.
Lemma partition_none c a : ~ In c a -> partition c a = (a, false, []).
Proof.
  induction a as [|x a IH]; intros H; cbn [partition]; [reflexivity|].
  rewrite byte_eqb_neq by (intros ->; apply H; left; reflexivity).
  rewrite IH by (intros K; apply H; right; exact K). reflexivity.
Qed.
Lemma rpartition_none c b : ~ In c b -> rpartition c b = ([], false, b).
Proof.
  induction b as [|x b IH]; intros H; cbn [rpartition]; [reflexivity|].
  rewrite IH by (intros K; apply H; right; exact K). cbv iota beta.
  rewrite byte_eqb_neq by (intros ->; apply H; left; reflexivity). reflexivity.
Qed.
Lemma rpartition_found c a b : ~ In c b -> rpartition c (a ++ c :: b) = (a, true, b).
Proof.
  intros H. induction a as [|x a IH]; cbn [app rpartition].
  - rewrite rpartition_none by exact H. cbv iota beta. rewrite byte_eqb_refl. reflexivity.
  - rewrite IH. reflexivity.
Qed.

Definition no_delim (l : bytes) : Prop := Forall (fun x => is_delim x = false) l.
Definition delim_first (l : bytes) : Prop := match l with [] => True | x :: _ => is_delim x = true end.
Lemma split_netloc_app a b : no_delim a -> delim_first b -> split_netloc (a ++ b) = (a, b).
Proof.
  intros Ha Hb. induction Ha as [|x a Hx Ha IH]; cbn [app].
  - destruct b as [|y b]; [reflexivity|]. cbn [split_netloc]. cbn in Hb. rewrite Hb. reflexivity.
  - cbn [split_netloc]. rewrite Hx, IH. reflexivity.
Qed.

(* ---------- decimal numbers ---------- *)
Definition r256 : list N := map N.of_nat (seq 0 256).
Lemma in_r256 n : n < 256 -> In n r256.
Proof. intros H. unfold r256. apply in_map_iff. exists (N.to_nat n). split; [lia|]. apply in_seq. lia. Qed.

Definition dec_ok (n : N) : bool :=
  match parse_dec (decimal n) with Some m => m =? n | None => false end &&
  forallb is_digit (decimal n) && negb (match decimal n with [] => true | _ => false end).

Lemma dec_sweep : forallb (fun hi => forallb (fun lo => dec_ok (hi * 256 + lo)) r256) r256 = true.
Proof. vm_compute. reflexivity. Qed.

Lemma dec_ok_port n : n <= 65535 -> dec_ok n = true.
Proof.
  intros H. pose proof dec_sweep as S. rewrite forallb_forall in S.
  assert (A : n / 256 < 256) by (apply N.div_lt_upper_bound; lia).
  assert (B : n mod 256 < 256) by (apply N.mod_lt; lia).
  specialize (S (n / 256) (in_r256 _ A)). rewrite forallb_forall in S.
  specialize (S (n mod 256) (in_r256 _ B)).
  assert (E : n / 256 * 256 + n mod 256 = n) by (rewrite N.mul_comm; symmetry; apply N.div_mod; lia).
  rewrite E in S. exact S.
Qed.

Lemma parse_decimal n : n <= 65535 -> parse_dec (decimal n) = Some n.
Proof.
  intros H. pose proof (dec_ok_port n H) as D. unfold dec_ok in D.
  apply andb_true_iff in D as [D _]. apply andb_true_iff in D as [D _].
  destruct (parse_dec (decimal n)) as [m|]; [|discriminate]. apply N.eqb_eq in D. congruence.
Qed.
Lemma decimal_digits n : n <= 65535 -> Forall (fun d => is_digit d = true) (decimal n) /\ decimal n <> [].
Proof.
  intros H. pose proof (dec_ok_port n H) as D. unfold dec_ok in D.
  apply andb_true_iff in D as [D N0]. apply andb_true_iff in D as [_ D].
  split; [apply Forall_forall; rewrite forallb_forall in D; exact D|].
  destruct (decimal n); [discriminate|discriminate].
Qed.

(* ---------- rendering a URL from components ---------- *)
Record parts := {
  p_scheme : bytes; p_userinfo : option (bytes * option bytes); p_host : bytes; p_port : option N;
  p_path : bytes; p_query : option bytes; p_fragment : option bytes
}.

Definition render_userinfo (ui : option (bytes * option bytes)) : bytes :=
  match ui with
  | None => []
  | Some (u, None) => u ++ [AT]
  | Some (u, Some p) => u ++ COLON :: p ++ [AT]
  end.
Definition render_port (p : option N) : bytes := match p with None => [] | Some n => COLON :: decimal n end.
Definition render_tail (p : parts) : bytes :=
  p_path p ++ (match p_query p with None => [] | Some q => QMARK :: q end)
           ++ (match p_fragment p with None => [] | Some f => HASH :: f end).
Definition render (p : parts) : bytes :=
  p_scheme p ++ COLON :: SLASH :: SLASH :: (render_userinfo (p_userinfo p) ++ p_host p ++ render_port (p_port p)) ++ render_tail p.

Definition free_of (cs : list byte) (l : bytes) : Prop := Forall (fun x => ~ In x cs) l.
Definition AUTH_DELIMS : list byte := [SLASH; QMARK; HASH; AT; LBRACK; RBRACK].

Record wf (p : parts) : Prop := {
  wf_scheme : exists s0 s, p_scheme p = s0 :: s /\ is_alpha s0 = true /\ forallb is_scheme_char (p_scheme p) = true;
  wf_user : match p_userinfo p with
            | None => True
            | Some (u, pw) => free_of (COLON :: AUTH_DELIMS) u /\
                              match pw with None => True | Some w => free_of AUTH_DELIMS w end
            end;
  wf_host : free_of (COLON :: AUTH_DELIMS) (p_host p);
  wf_port : match p_port p with None => True | Some n => n <= 65535 end;
  wf_path : (p_path p = [] \/ exists t, p_path p = SLASH :: t) /\ free_of [QMARK; HASH] (p_path p);
  wf_query : match p_query p with None => True | Some q => free_of [HASH] q end
}.

Lemma free_not_in cs l c : free_of cs l -> In c cs -> ~ In c l.
Proof. intros F Hc K. unfold free_of in F. rewrite Forall_forall in F. exact (F c K Hc). Qed.

Lemma free_app cs a b : free_of cs a -> free_of cs b -> free_of cs (a ++ b).
Proof. intros; apply Forall_app; split; assumption. Qed.

Lemma scheme_char_not_colon x : is_scheme_char x = true -> x <> COLON.
Proof. intros H ->. vm_compute in H. discriminate. Qed.

Lemma digit_free d cs : is_digit d = true -> forallb (fun c => negb (is_digit c)) cs = true -> ~ In d cs.
Proof.
  intros Hd Hc K. rewrite forallb_forall in Hc. specialize (Hc d K). rewrite Hd in Hc. discriminate.
Qed.

Lemma free_no_delim l : free_of (COLON :: AUTH_DELIMS) l -> no_delim l.
Proof.
  intros F. unfold no_delim. eapply Forall_impl; [|exact F]. intros x Hx. cbv beta in Hx.
  unfold is_delim. rewrite !byte_eqb_neq; [reflexivity|..]; intros ->; apply Hx; cbn; tauto.
Qed.
Lemma free_auth_no_delim l : free_of AUTH_DELIMS l -> no_delim l.
Proof.
  intros F. unfold no_delim. eapply Forall_impl; [|exact F]. intros x Hx. cbv beta in Hx.
  unfold is_delim. rewrite !byte_eqb_neq; [reflexivity|..]; intros ->; apply Hx; cbn; tauto.
Qed.
Lemma digits_no_delim l : Forall (fun d => is_digit d = true) l -> no_delim l.
Proof.
  intros F. unfold no_delim. eapply Forall_impl; [|exact F]. intros x Hx. cbv beta in Hx.
  destruct x; try discriminate Hx; reflexivity.
Qed.
Lemma digits_free l cs : Forall (fun d => is_digit d = true) l -> forallb (fun c => negb (is_digit c)) cs = true -> free_of cs l.
Proof. intros F Hc. unfold free_of. eapply Forall_impl; [|exact F]. intros x Hx. apply digit_free; assumption. Qed.

Lemma mem_false c l : ~ In c l -> mem c l = false.
Proof.
  intros H. unfold mem. destruct (existsb (Byte.eqb c) l) eqn:E; [|reflexivity].
  apply existsb_exists in E as (x & Hx & Ex). apply Byte.byte_dec_bl in Ex. subst x. contradiction.
Qed.

(* the components as the parse returns them *)
Definition expected (p : parts) : url :=
  {| u_scheme := lower_s (p_scheme p);
     u_user := match p_userinfo p with Some (u, _) => Some u | None => None end;
     u_password := match p_userinfo p with Some (_, pw) => pw | None => None end;
     u_host := lower_s (p_host p); u_port := p_port p; u_path := p_path p;
     u_query := match p_query p with Some q => q | None => [] end |}.

Theorem parse_render p : wf p -> parse_url (render p) = Some (expected p).
Proof.
  intros [ (s0 & s & Es & Ha & Hs) Hu Hh Hp (Hpath & Hpf) Hq ].
  unfold parse_url, render.
  (* scheme *)
  assert (NC : ~ In COLON (p_scheme p)).
  { intros K. rewrite forallb_forall in Hs. apply (scheme_char_not_colon COLON); [apply Hs; exact K|reflexivity]. }
  rewrite partition_found by exact NC. rewrite Es. rewrite <- Es.
  rewrite Ha, Hs. cbn [negb orb andb]. rewrite !byte_eqb_refl. cbn [andb negb].
  (* authority *)
  set (netloc := render_userinfo (p_userinfo p) ++ p_host p ++ render_port (p_port p)).
  assert (Hport_digits : match p_port p with None => True | Some n => Forall (fun d => is_digit d = true) (decimal n) /\ decimal n <> [] end).
  { destruct (p_port p) as [n|]; [apply decimal_digits; exact Hp|exact I]. }
  assert (ND : no_delim netloc).
  { unfold netloc, no_delim. apply Forall_app; split; [|apply Forall_app; split].
    - destruct (p_userinfo p) as [[u [w|]]|]; cbn [render_userinfo]; [| |constructor].
      + destruct Hu as [Hu1 Hu2]. apply Forall_app; split; [apply free_no_delim; exact Hu1|].
        constructor; [reflexivity|]. apply Forall_app; split; [apply free_auth_no_delim; exact Hu2|]. constructor; [reflexivity|constructor].
      + destruct Hu as [Hu1 _]. apply Forall_app; split; [apply free_no_delim; exact Hu1|]. constructor; [reflexivity|constructor].
    - apply free_no_delim. exact Hh.
    - destruct (p_port p) as [n|]; cbn [render_port]; [|constructor].
      constructor; [reflexivity|]. apply digits_no_delim. apply Hport_digits. }
  assert (DF : delim_first (render_tail p)).
  { unfold render_tail. destruct Hpath as [E|(t & E)]; rewrite E; cbn [app].
    - destruct (p_query p); cbn; [reflexivity|]. destruct (p_fragment p); cbn; [reflexivity|exact I].
    - reflexivity. }
  rewrite split_netloc_app by assumption.
  (* no brackets *)
  assert (FB : free_of [LBRACK; RBRACK] netloc).
  { unfold netloc. apply free_app; [|apply free_app].
    - destruct (p_userinfo p) as [[u [w|]]|]; cbn [render_userinfo]; [| |constructor].
      + destruct Hu as [Hu1 Hu2]. apply free_app; [eapply Forall_impl; [|exact Hu1]; cbn; tauto|].
        constructor; [cbn; intros [K|[K|[]]]; discriminate K|].
        apply free_app; [eapply Forall_impl; [|exact Hu2]; cbn; tauto|]. constructor; [cbn; intros [K|[K|[]]]; discriminate K|constructor].
      + destruct Hu as [Hu1 _]. apply free_app; [eapply Forall_impl; [|exact Hu1]; cbn; tauto|].
        constructor; [cbn; intros [K|[K|[]]]; discriminate K|constructor].
    - eapply Forall_impl; [|exact Hh]. cbn; tauto.
    - destruct (p_port p) as [n|]; cbn [render_port]; [|constructor].
      constructor; [cbn; intros [K|[K|[]]]; discriminate K|]. apply digits_free; [apply Hport_digits|reflexivity]. }
  rewrite (mem_false LBRACK netloc) by (apply (free_not_in _ _ _ FB); cbn; tauto).
  rewrite (mem_false RBRACK netloc) by (apply (free_not_in _ _ _ FB); cbn; tauto).
  cbn [orb].
  (* fragment and query *)
  assert (T1 : partition HASH (render_tail p) = (p_path p ++ match p_query p with None => [] | Some q => QMARK :: q end,
                                                 match p_fragment p with None => false | Some _ => true end,
                                                 match p_fragment p with None => [] | Some f => f end)).
  { unfold render_tail. rewrite app_assoc.
    assert (NH : ~ In HASH (p_path p ++ match p_query p with None => [] | Some q => QMARK :: q end)).
    { intros K. apply in_app_or in K as [K|K]; [apply (free_not_in _ _ HASH Hpf); [cbn; tauto|exact K]|].
      destruct (p_query p) as [q|]; [|destruct K]. destruct K as [K|K]; [discriminate K|].
      apply (free_not_in _ _ HASH Hq); [cbn; tauto|exact K]. }
    destruct (p_fragment p) as [f|]; [apply partition_found; exact NH|]. rewrite app_nil_r. apply partition_none. exact NH. }
  rewrite T1.
  assert (T2 : partition QMARK (p_path p ++ match p_query p with None => [] | Some q => QMARK :: q end) =
               (p_path p, match p_query p with None => false | Some _ => true end, match p_query p with None => [] | Some q => q end)).
  { assert (NQ : ~ In QMARK (p_path p)) by (apply (free_not_in _ _ QMARK Hpf); cbn; tauto).
    destruct (p_query p) as [q|]; [apply partition_found; exact NQ|]. rewrite app_nil_r. apply partition_none. exact NQ. }
  rewrite T2.
  (* user info *)
  assert (NA : ~ In AT (p_host p ++ render_port (p_port p))).
  { intros K. apply in_app_or in K as [K|K]; [apply (free_not_in _ _ AT Hh); [cbn; tauto|exact K]|].
    destruct (p_port p) as [n|]; [|destruct K]. destruct K as [K|K]; [discriminate K|].
    destruct Hport_digits as [Hd _]. rewrite Forall_forall in Hd. specialize (Hd AT K). discriminate Hd. }
  assert (T3 : rpartition AT netloc =
               (match p_userinfo p with None => [] | Some (u, None) => u | Some (u, Some w) => u ++ COLON :: w end,
                match p_userinfo p with None => false | Some _ => true end, p_host p ++ render_port (p_port p))).
  { unfold netloc. destruct (p_userinfo p) as [[u [w|]]|]; cbn [render_userinfo].
    - rewrite <- !app_assoc. cbn [app]. rewrite <- app_assoc. cbn [app].
      change (u ++ COLON :: w ++ AT :: p_host p ++ render_port (p_port p)) with (u ++ (COLON :: w) ++ AT :: p_host p ++ render_port (p_port p)).
      rewrite app_assoc. apply rpartition_found. exact NA.
    - rewrite <- app_assoc. cbn [app]. apply rpartition_found. exact NA.
    - cbn [app]. apply rpartition_none. exact NA. }
  rewrite T3.
  assert (T4 : partition COLON (p_host p ++ render_port (p_port p)) =
               (p_host p, match p_port p with None => false | Some _ => true end,
                match p_port p with None => [] | Some n => decimal n end)).
  { assert (NCh : ~ In COLON (p_host p)) by (apply (free_not_in _ _ COLON Hh); cbn; tauto).
    destruct (p_port p) as [n|]; cbn [render_port]; [apply partition_found; exact NCh|].
    rewrite app_nil_r. apply partition_none. exact NCh. }
  rewrite T4.
  unfold expected.
  destruct (p_userinfo p) as [[u [w|]]|].
  - destruct Hu as [Hu1 _].
    rewrite partition_found by (apply (free_not_in _ _ COLON Hu1); cbn; tauto).
    destruct (p_port p) as [n|]; [|reflexivity].
    destruct Hport_digits as [_ Hne]. destruct (decimal n) as [|d0 ds] eqn:Ed; [contradiction|].
    rewrite <- Ed, parse_decimal by exact Hp. apply N.leb_le in Hp. rewrite Hp. reflexivity.
  - destruct Hu as [Hu1 _].
    rewrite partition_none by (apply (free_not_in _ _ COLON Hu1); cbn; tauto).
    destruct (p_port p) as [n|]; [|reflexivity].
    destruct Hport_digits as [_ Hne]. destruct (decimal n) as [|d0 ds] eqn:Ed; [contradiction|].
    rewrite <- Ed, parse_decimal by exact Hp. apply N.leb_le in Hp. rewrite Hp. reflexivity.
  - destruct (p_port p) as [n|]; [|reflexivity].
    destruct Hport_digits as [_ Hne]. destruct (decimal n) as [|d0 ds] eqn:Ed; [contradiction|].
    rewrite <- Ed, parse_decimal by exact Hp. apply N.leb_le in Hp. rewrite Hp. reflexivity.
Qed.

(* what lomond derives from it *)
Corollary ws_target_of_render p : wf p ->
  exists u, parse_url (render p) = Some u /\
    u_host u = lower_s (p_host p) /\
    ws_port u = effective_port (p_port p) (bytes_eqb (lower_s (p_scheme p)) (str "wss"%string)) /\
    ws_resource u = (match p_path p with [] => [SLASH] | x => x end) ++
                    (match p_query p with Some (q0 :: q) => QMARK :: q0 :: q | _ => [] end).
Proof.
  intros W. exists (expected p). split; [apply parse_render; exact W|]. split; [reflexivity|]. split; [reflexivity|].
  unfold ws_resource, expected; cbn [u_path u_query]. destruct (p_query p) as [[|q0 q]|]; reflexivity.
Qed.

(* the fragment never reaches the request, and the spelling of the port (absent, or the default written out) does not
   change the target *)
Corollary fragment_irrelevant p f : wf p -> parse_url (render p) =
  parse_url (render {| p_scheme := p_scheme p; p_userinfo := p_userinfo p; p_host := p_host p; p_port := p_port p;
                       p_path := p_path p; p_query := p_query p; p_fragment := f |}).
Proof.
  intros W. rewrite parse_render by exact W.
  rewrite parse_render; [reflexivity|]. destruct W; constructor; assumption.
Qed.

(* the upgrade request of a WebSocket constructed from a rendered URL: request line and Host header are functions of the
   components *)
Theorem request_of_rendered_url p key agent custom protos compress version : wf p ->
  exists u, parse_url (render p) = Some u /\
    let q := req_of_url u key agent custom protos compress version in
    let resource := (match p_path p with [] => [SLASH] | x => x end) ++
                    (match p_query p with Some (q0 :: q) => QMARK :: q0 :: q | _ => [] end) in
    let port := effective_port (p_port p) (bytes_eqb (lower_s (p_scheme p)) (str "wss"%string)) in
    build_request q = join CRLF ((str "GET "%string ++ resource ++ str " HTTP/1.1"%string)
                                 :: map header_line (request_headers q) ++ [CRLF]) /\
    In (str "Host"%string, lower_s (p_host p) ++ str ":"%string ++ decimal port) (request_headers q) /\
    In (str "Sec-WebSocket-Key"%string, key) (request_headers q).
Proof.
  intros W. destruct (ws_target_of_render p W) as (u & E & Hh & Hp & Hr). exists u. split; [exact E|].
  cbv zeta. split; [|split].
  - unfold build_request. cbn [q_resource req_of_url]. rewrite Hr. reflexivity.
  - unfold request_headers. cbn [q_host q_port q_custom req_of_url]. rewrite Hh, Hp.
    apply in_or_app. right. left. reflexivity.
  - unfold request_headers. cbn [q_key q_custom req_of_url]. apply in_or_app. right. cbn. tauto.
Qed.

(* what _connect_proxy derives from a rendered proxy URL *)
Corollary proxy_target_of_render p : wf p ->
  exists u, parse_url (render p) = Some u /\
    u_host u = lower_s (p_host p) /\
    proxy_tls u = bytes_eqb (lower_s (p_scheme p)) (str "https"%string) /\
    proxy_port u = effective_port (p_port p) (bytes_eqb (lower_s (p_scheme p)) (str "https"%string)) /\
    proxy_user u = match p_userinfo p with Some (x :: us, pw) => Some (x :: us, pw) | _ => None end.
Proof.
  intros W. exists (expected p). split; [apply parse_render; exact W|]. repeat split; try reflexivity.
  unfold proxy_user, expected; cbn [u_user u_password]. destruct (p_userinfo p) as [[[|x us] pw]|]; reflexivity.
Qed.
