(* A reply rendered by ResponseFacts.render_reply is one header block in the sense of the run-level theorems
   (DeliveryFacts.reply_block): its first CRLF CRLF is its end.  This joins the rendering theorems to the theorems about
   whole connection attempts: a Ready event implies that the reply -- as a SET of headers, however rendered -- carries
   Upgrade: websocket and the digest of this attempt's key. *)
From Coq Require Import String.
From Coq Require Import List NArith Arith Bool Lia.
From Coq.Strings Require Import Byte.
From Model Require Import Bytes Utf8 Frame Parser FrameParser Response Conn Digest Handshake.
From Proofs Require Import BytesFacts HandshakeFacts ShapeFacts ReadyFacts DeliveryFacts RejectFacts DigestFacts DigestRun UrlFacts ResponseFacts.
Import ListNotations.
Open Scope N_scope.

(* the block: every line followed by CRLF, then the empty line *)
Definition body (ls : list bytes) : bytes := concat (map (fun l => l ++ CRLF) ls).

Lemma join_as_body ls : join_crlf (ls ++ [[]; []]) = body ls ++ CRLF.
Proof.
  induction ls as [|l ls IH]; [reflexivity|].
  cbn [app]. destruct (ls ++ [[]; []]) as [|x xs] eqn:E; [destruct ls; discriminate|].
  change (join_crlf (l :: x :: xs)) with (l ++ CRLF ++ join_crlf (x :: xs)). rewrite IH.
  unfold body. cbn [map concat]. rewrite <- !app_assoc. reflexivity.
Qed.

Definition solid (l : bytes) : Prop := l <> [] /\ no_crlf l.

Lemma prefix4_no b t : b <> CR -> prefixb CRLFCRLF (b :: t) = false.
Proof. intros H. unfold CRLFCRLF. cbn [prefixb]. rewrite (beqb_neq CR b) by congruence. reflexivity. Qed.

(* scanning over the characters of a line *)
Lemma find_skip l rest : no_crlf l ->
  find_sep CRLFCRLF (l ++ rest) = option_map (fun i => (length l + i)%nat) (find_sep CRLFCRLF rest).
Proof.
  induction 1 as [|b l [Hb _] _ IH]; [cbn [app length]; destruct (find_sep CRLFCRLF rest); reflexivity|].
  cbn [app find_sep]. rewrite prefix4_no by exact Hb. rewrite IH.
  destruct (find_sep CRLFCRLF rest); reflexivity.
Qed.

(* CRLF followed by a character that is not CR: no terminator starts here or one byte later *)
Lemma find_over_crlf c t : c <> CR -> c <> LF ->
  find_sep CRLFCRLF (CR :: LF :: c :: t) = option_map (fun i => (2 + i)%nat) (find_sep CRLFCRLF (c :: t)).
Proof.
  intros H1 H2. cbn [find_sep].
  assert (P1 : prefixb CRLFCRLF (CR :: LF :: c :: t) = false).
  { unfold CRLFCRLF. cbn [prefixb]. rewrite !beqb_refl. cbn [andb]. rewrite (beqb_neq CR c) by congruence. reflexivity. }
  assert (P2 : prefixb CRLFCRLF (LF :: c :: t) = false) by reflexivity.
  rewrite P1, P2. destruct (prefixb CRLFCRLF (c :: t)); [reflexivity|].
  destruct (find_sep CRLFCRLF t); reflexivity.
Qed.

Lemma find_in_block ls : ls <> [] -> Forall solid ls ->
  find_sep CRLFCRLF (body ls ++ CRLF) = Some (length (body ls) - 2)%nat.
Proof.
  induction ls as [|l ls IH]; intros Hne Hall; [contradiction|].
  inversion Hall as [|? ? [Hl0 Hl] Hrest]; subst.
  unfold body. cbn [map concat]. rewrite <- !app_assoc. rewrite find_skip by exact Hl.
  destruct ls as [|l2 ls].
  - cbn [map concat app]. unfold CRLF at 1 2. cbn [app].
    assert (E : find_sep CRLFCRLF [CR; LF; CR; LF] = Some 0%nat) by reflexivity.
    rewrite E. cbn [option_map]. f_equal. rewrite app_length. cbn. rewrite Nat.add_0_r, Nat.add_sub. reflexivity.
  - inversion Hrest as [|? ? [H20 H2] _]; subst.
    destruct l2 as [|c t]; [contradiction|]. inversion H2 as [|? ? [Hc1 Hc2] _]; subst.
    specialize (IH ltac:(discriminate) Hrest). unfold body in IH. cbn [map concat] in IH. rewrite <- !app_assoc in IH.
    cbn [map concat]. rewrite <- !app_assoc.
    unfold CRLF at 1. cbn [app]. rewrite find_over_crlf by assumption.
    cbn [app] in IH. rewrite IH. cbn [option_map]. f_equal.
    rewrite !app_length. cbn [length]. rewrite !app_length. cbn [length]. change (length CRLF) with 2%nat. lia.
Qed.

Lemma body_length_ge ls : ls <> [] -> (2 <= length (body ls))%nat.
Proof. destruct ls as [|l ls]; [contradiction|]. intros _. unfold body. cbn [map concat]. rewrite !app_length. cbn. lia. Qed.

(* the lines of a well-formed reply are solid *)
Lemma reply_lines_solid r : wf_reply_dup r -> Forall solid (status_line r :: flat_map render_lines (rp_lines r)).
Proof.
  intros [[Hv Fv] Hc Hr Hl]. constructor.
  - split; [unfold status_line; destruct (rp_version r); [contradiction|discriminate]|].
    unfold status_line, no_crlf. apply Forall_app; split; [eapply Forall_impl; [|exact Fv]; exact bspace_crlf|].
    constructor; [split; discriminate|].
    apply Forall_app; split.
    + destruct (decimal_digits _ Hc) as [Fd _]. eapply Forall_impl; [|exact Fd].
      intros b Hb. apply bspace_crlf. apply digit_not_bspace. exact Hb.
    + constructor; [split; discriminate|exact Hr].
  - apply Forall_forall. intros l Hin. apply in_flat_map in Hin as (h & Hh & Hin).
    rewrite Forall_forall in Hl. specialize (Hl h Hh). destruct Hin as [<-|Hin].
    + split; [|apply line_no_crlf; exact Hl].
      destruct Hl as [[Hn _] _ _ _ _]. unfold render_line. destruct (hl_name h); [contradiction|discriminate].
    + apply in_map_iff in Hin as (c & <- & Hc').
      destruct Hl as [_ _ _ _ Wc]. rewrite Forall_forall in Wc. specialize (Wc c Hc'). split; [|apply cont_no_crlf; exact Wc].
      destruct Wc as [[Hn _] _ _]. unfold render_cont. destruct (fst c); [contradiction|discriminate].
Qed.

Theorem rendered_reply_is_a_block r : wf_reply_dup r -> N.of_nat (length (render_reply r)) <= 16384 ->
  reply_block (render_reply r).
Proof.
  intros W Hlen. unfold reply_block, render_reply in *.
  change (status_line r :: flat_map render_lines (rp_lines r) ++ [[]; []])
    with ((status_line r :: flat_map render_lines (rp_lines r)) ++ [[]; []]) in *.
  rewrite join_as_body in *.
  set (ls := status_line r :: flat_map render_lines (rp_lines r)) in *.
  exists (length (body ls) - 2)%nat. split; [apply find_in_block; [discriminate|apply reply_lines_solid; exact W]|].
  split; [|exact Hlen].
  pose proof (body_length_ge ls ltac:(discriminate)). rewrite app_length. change (length CRLF) with 2%nat. lia.
Qed.

(* end to end: Ready only for a reply that -- as a set of headers -- carries Upgrade: websocket and this key's digest *)
Theorem ready_needs_digest_headers cf app keys wf zt ct dt0 r rest rand16 :
  c_accept cf = accept_of (make_key rand16) ->
  wf_reply r -> N.of_nat (length (render_reply r)) <= 16384 ->
  has_ready (evs (k_tr (run cf app (init keys wf zt ct) CnOk (StRead dt0 (RData (render_reply r)) :: rest)))) ->
  rp_code r = 101 /\
  (exists h, In h (rp_lines r) /\ key_of h = str "upgrade"%string /\ lower_s (strip (value_text h)) = str "websocket"%string) /\
  (exists h, In h (rp_lines r) /\ key_of h = str "sec-websocket-accept"%string /\
             lower_s (strip (value_text h)) = lower_s (b64_encode (sha1 (b64_encode rand16 ++ WS_GUID)))).
Proof.
  intros Ha W Hlen Hr.
  assert (Wd : wf_reply_dup r) by (destruct W; constructor; assumption).
  pose proof (rendered_reply_is_a_block r Wd Hlen) as Hb.
  destruct (ready_needs_digest cf app keys wf zt ct dt0 _ rest rand16 Ha Hb Hr) as (S & (u & Hu & Eu) & (a & Hacc & Ea)).
  destruct (parse_rendered_reply r W) as (S' & G & N).
  split; [congruence|].
  assert (Find : forall q v, resp_get (parse_response (render_reply r)) q = Some v ->
                 exists h, In h (rp_lines r) /\ key_of h = lower_s q /\ v = strip (value_text h)).
  { intros q v Hq.
    destruct (in_dec (list_eq_dec Byte.byte_eq_dec) (lower_s q) (map key_of (rp_lines r))) as [I|I].
    - apply in_map_iff in I as (h & Eh & Hin). rewrite (G h q Hin (eq_sym Eh)) in Hq. inversion Hq; subst.
      exists h. auto.
    - rewrite (N q I) in Hq. discriminate. }
  split.
  - destruct (Find _ _ Hu) as (h & Hin & Hk & Hv). exists h. subst u. auto.
  - destruct (Find _ _ Hacc) as (h & Hin & Hk & Hv). exists h. subst a. auto.
Qed.
