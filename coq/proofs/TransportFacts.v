(* The read side of the loop never blocks while data is available, and hands everything to feed. *)
From Coq Require Import List NArith Arith Lia Bool ZifyN ZifyNat.
From Coq.Strings Require Import Byte.
From Model Require Import Bytes Transport.
Import ListNotations.
Open Scope N_scope.

Definition available (t : transport) : bytes := t_pending t ++ concat (t_kernel t).
Definition records_nonempty (t : transport) : Prop := Forall (fun r => r <> []) (t_kernel t).
Definition well_formed (t : transport) : Prop :=
  records_nonempty t /\ (t_tls t = false -> t_pending t = []) /\ (t_readahead t = true -> t_tls t = true).

(* SelectorBase.wait blocks exactly when nothing is available: neither decrypted bytes buffered in the TLS layer nor
   anything in the kernel queue *)
Theorem wait_blocks_iff_nothing_available t : records_nonempty t -> (wait t = None <-> available t = []).
Proof.
  intros Hne. unfold wait, available, records_nonempty in *.
  destruct (t_pending t) as [|b p]; [|split; [discriminate|intros H; discriminate]].
  destruct (t_kernel t) as [|r rs]; [split; reflexivity|].
  split; [discriminate|]. intros H. cbn in H. inversion Hne as [|? ? Hr _]; subst.
  destruct r; [congruence|discriminate].
Qed.

Lemma take_n_app n l : let '(a, b) := take_n n l in a ++ b = l /\ (N.of_nat (length a) <= n).
Proof.
  unfold take_n. rewrite firstn_skipn. split; [reflexivity|].
  rewrite firstn_length. unfold blen. lia.
Qed.
Lemma take_n_nonempty n l : 0 < n -> l <> [] -> fst (take_n n l) <> [].
Proof.
  intros Hn Hl. unfold take_n. cbn [fst]. destruct l as [|x l]; [congruence|].
  unfold blen. cbn [length]. destruct (N.to_nat (N.min n (N.of_nat (S (length l))))) eqn:E; [lia|]. discriminate.
Qed.

(* one recv: returns a non-empty chunk of at most count bytes, a prefix of what is available; the rest stays available *)
Lemma recv_spec t count : well_formed t -> 0 < count -> available t <> [] ->
  let '(chunk, t') := recv t count in
  chunk ++ available t' = available t /\ chunk <> [] /\ blen chunk <= count /\ well_formed t'.
Proof.
  intros (Hne & Hpl & Hra) Hc Hav. unfold recv, available, well_formed, records_nonempty in *.
  destruct (t_tls t) eqn:Et.
  - destruct (t_pending t) as [|b p] eqn:Ep.
    + destruct (t_kernel t) as [|r rest] eqn:Ek; [cbn in Hav; congruence|].
      inversion Hne as [|? ? Hr Hrest]; subst.
      destruct (t_readahead t) eqn:Er.
      * pose proof (take_n_app count (concat (r :: rest))) as Ht.
        pose proof (take_n_nonempty count (concat (r :: rest)) Hc) as Hn.
        destruct (take_n count (concat (r :: rest))) as [a b0]. destruct Ht as [Ht1 Ht2].
        cbn [t_pending t_kernel t_tls t_readahead concat app fst] in *. rewrite app_nil_r.
        split; [exact Ht1|]. split; [apply Hn; destruct r; [congruence|discriminate]|].
        split; [exact Ht2|]. split; [constructor|]. split; [discriminate|reflexivity].
      * pose proof (take_n_app count r) as Ht. pose proof (take_n_nonempty count r Hc Hr) as Hn.
        destruct (take_n count r) as [a b0]. destruct Ht as [Ht1 Ht2].
        cbn [t_pending t_kernel t_tls t_readahead concat app fst] in *.
        split; [rewrite app_assoc, Ht1; reflexivity|]. split; [exact Hn|].
        split; [exact Ht2|]. split; [exact Hrest|]. split; discriminate.
    + pose proof (take_n_app count (b :: p)) as Ht. pose proof (take_n_nonempty count (b :: p) Hc ltac:(discriminate)) as Hn.
      destruct (take_n count (b :: p)) as [a b0]. destruct Ht as [Ht1 Ht2].
      cbn [t_pending t_kernel t_tls t_readahead fst] in *.
      split; [rewrite app_assoc, Ht1; reflexivity|]. split; [exact Hn|].
      split; [exact Ht2|]. split; [exact Hne|]. split; [discriminate|exact Hra].
  - rewrite (Hpl eq_refl) in *. cbn [app] in *.
    pose proof (take_n_app count (concat (t_kernel t))) as Ht.
    pose proof (take_n_nonempty count (concat (t_kernel t)) Hc Hav) as Hn.
    destruct (take_n count (concat (t_kernel t))) as [a b0]. destruct Ht as [Ht1 Ht2].
    cbn [t_pending t_kernel t_tls t_readahead app fst] in *.
    split; [destruct b0; cbn; rewrite ?app_nil_r in *; exact Ht1|]. split; [exact Hn|].
    split; [exact Ht2|]. split; [destruct b0; constructor; [discriminate|constructor]|]. split; [reflexivity|discriminate].
Qed.

(* the loop until it would block: everything that was available has been handed to feed, in order, in pieces that
   fit the 64 KiB buffer -- whatever the burst size and the record alignment, for TCP, TLS and TLS with read-ahead *)
Theorem drain_delivers_everything fuel : forall t, well_formed t -> (length (available t) < fuel)%nat ->
  let '(chunks, t') := drain fuel t in
  concat chunks = available t /\ available t' = [] /\ Forall (fun c => c <> [] /\ blen c <= BUFFER_SIZE) chunks.
Proof.
  induction fuel as [|f IH]; intros t Hwf Hlt; [lia|].
  cbn [drain]. destruct Hwf as (Hne & Hpl & Hra).
  destruct (wait t) as [n|] eqn:Ew.
  - assert (Hav : available t <> []).
    { intros E. apply (wait_blocks_iff_nothing_available t Hne) in E. congruence. }
    assert (Hn : 0 < N.min n BUFFER_SIZE).
    { unfold wait in Ew. destruct (t_pending t) as [|b p]; [destruct (t_kernel t); inversion Ew; subst; reflexivity|].
      inversion Ew; subst. unfold blen, BUFFER_SIZE. cbn [length]. lia. }
    pose proof (recv_spec t (N.min n BUFFER_SIZE) (conj Hne (conj Hpl Hra)) Hn Hav) as Hr.
    destruct (recv t (N.min n BUFFER_SIZE)) as [chunk t1]. destruct Hr as (E1 & E2 & E3 & Hwf1).
    destruct chunk as [|b0 ch]; [congruence|].
    assert (Hlt1 : (length (available t1) < f)%nat).
    { rewrite <- E1 in Hlt. rewrite app_length in Hlt. cbn [length] in Hlt. lia. }
    specialize (IH t1 Hwf1 Hlt1). destruct (drain f t1) as [rest t2]. destruct IH as (I1 & I2 & I3).
    cbn [concat]. repeat split.
    + rewrite I1. exact E1.
    + exact I2.
    + constructor; [split; [discriminate|lia]|exact I3].
  - apply (wait_blocks_iff_nothing_available t Hne) in Ew. cbn [concat]. repeat split; auto.
Qed.

Corollary drain_all_delivers_everything t : well_formed t ->
  let '(chunks, t') := drain_all t in
  concat chunks = available t /\ available t' = [] /\ Forall (fun c => c <> [] /\ blen c <= BUFFER_SIZE) chunks.
Proof.
  intros H. unfold drain_all. apply drain_delivers_everything; [exact H|].
  unfold total, available. rewrite app_length. lia.
Qed.
