(* (T1) Tables obtained by executing the live code equal the model's definitions. *)
From Coq Require Import List NArith Arith Lia Bool.
From Coq.Strings Require Import Byte.
From Model Require Import Bytes Frame FrameParser Conn Transport.
From Proofs Require Import BytesFacts.
From Gen Require Import GenFrame GenStatus GenConst.
Import ListNotations.
Open Scope N_scope.

(* ---------- Frame.validate / CompressedFrame.validate ---------- *)
Definition b_of (n : N) : bool := negb (n =? 0).
Definition lens : list N := [0; 125; 126].

(* index layout written by tools/regen.py *)
Definition vidx (cls op fin r1 r2 r3 lc : N) : nat :=
  N.to_nat (((((((cls * 16 + op) * 2 + fin) * 2 + r1) * 2 + r2) * 2 + r3) * 3 + lc)).

Definition model_verdict (cls op fin r1 r2 r3 lc : N) : N :=
  let h := {| h_fin := b_of fin; h_r1 := b_of r1; h_r2 := b_of r2; h_r3 := b_of r3; h_op := op; h_mask := false |} in
  if validate_err (b_of cls) h (nth (N.to_nat lc) lens 0) then 1 else 0.

Definition range (n : nat) : list N := map N.of_nat (seq 0 n).

Definition validate_tbl_ok : bool :=
  forallb (fun cls => forallb (fun op => forallb (fun fin => forallb (fun r1 => forallb (fun r2 => forallb (fun r3 =>
  forallb (fun lc =>
    match nth_error impl_validate_tbl (vidx cls op fin r1 r2 r3 lc) with
    | Some v => N.eqb v (model_verdict cls op fin r1 r2 r3 lc)
    | None => false end) (range 3)) (range 2)) (range 2)) (range 2)) (range 2)) (range 16)) (range 2)
  && Nat.eqb (length impl_validate_tbl) 1536.

Lemma validate_tbl_ok_true : validate_tbl_ok = true.
Proof. vm_compute. reflexivity. Qed.

Definition opcode_tbl_ok : bool :=
  forallb (fun op =>
    match nth_error impl_is_reserved (N.to_nat op), nth_error impl_opcode_props (N.to_nat op) with
    | Some r, Some [ctl; txt; bin; cont; ping; pong; cls] =>
        Bool.eqb (b_of r) (is_reserved op) && Bool.eqb (b_of ctl) (is_control op) &&
        Bool.eqb (b_of txt) (op =? OP_TEXT) && Bool.eqb (b_of bin) (op =? OP_BINARY) &&
        Bool.eqb (b_of cont) (op =? OP_CONT) && Bool.eqb (b_of ping) (op =? OP_PING) &&
        Bool.eqb (b_of pong) (op =? OP_PONG) && Bool.eqb (b_of cls) (op =? OP_CLOSE)
    | _, _ => false end) (range 16)
  && match impl_opcodes with [a; b; c; d; e; f] =>
       (a =? OP_CONT) && (b =? OP_TEXT) && (c =? OP_BINARY) && (d =? OP_CLOSE) && (e =? OP_PING) && (f =? OP_PONG)
     | _ => false end.

Lemma opcode_tbl_ok_true : opcode_tbl_ok = true.
Proof. vm_compute. reflexivity. Qed.

(* lifted: for every header the running Frame.validate agrees with the model's validate_err *)
Lemma in_range n k : k < N.of_nat n -> In k (range n).
Proof.
  intros H. unfold range. apply in_map_iff. exists (N.to_nat k). split; [lia|]. apply in_seq. lia.
Qed.

Theorem impl_validate_is_model cls op fin r1 r2 r3 lc :
  cls < 2 -> op < 16 -> fin < 2 -> r1 < 2 -> r2 < 2 -> r3 < 2 -> lc < 3 ->
  nth_error impl_validate_tbl (vidx cls op fin r1 r2 r3 lc) = Some (model_verdict cls op fin r1 r2 r3 lc).
Proof.
  intros H1 H2 H3 H4 H5 H6 H7.
  pose proof validate_tbl_ok_true as H. unfold validate_tbl_ok in H. apply andb_true_iff in H as [H _].
  rewrite forallb_forall in H. specialize (H cls (in_range 2 cls H1)).
  rewrite forallb_forall in H. specialize (H op (in_range 16 op H2)).
  rewrite forallb_forall in H. specialize (H fin (in_range 2 fin H3)).
  rewrite forallb_forall in H. specialize (H r1 (in_range 2 r1 H4)).
  rewrite forallb_forall in H. specialize (H r2 (in_range 2 r2 H5)).
  rewrite forallb_forall in H. specialize (H r3 (in_range 2 r3 H6)).
  rewrite forallb_forall in H. specialize (H lc (in_range 3 lc H7)).
  destruct (nth_error impl_validate_tbl _); [|discriminate]. apply N.eqb_eq in H. congruence.
Qed.

(* ---------- Status.invalid_codes ---------- *)
Definition in_ranges (rs : list (N * N)) (c : N) : bool := existsb (fun r => (fst r <=? c) && (c <=? snd r)) rs.

Theorem impl_invalid_codes_is_model c : in_ranges impl_invalid_ranges c = invalid_close_code c.
Proof.
  unfold in_ranges, impl_invalid_ranges, invalid_close_code. cbn [existsb fst snd].
  destruct (c <? 1000) eqn:E1; destruct (0 <=? c) eqn:E0; destruct (c <=? 999) eqn:E2;
  destruct (1004 <=? c) eqn:E3; destruct (c <=? 1006) eqn:E4; destruct (1014 <=? c) eqn:E5;
  destruct (c <=? 2999) eqn:E6; destruct (c <? 3000) eqn:E7; cbn [andb orb]; try reflexivity;
  repeat match goal with
         | H : (_ <? _) = true |- _ => apply N.ltb_lt in H
         | H : (_ <? _) = false |- _ => apply N.ltb_ge in H
         | H : (_ <=? _) = true |- _ => apply N.leb_le in H
         | H : (_ <=? _) = false |- _ => apply N.leb_gt in H
         end; lia.
Qed.

(* the close codes the property calls reserved are rejected; the registered and private-use ones are accepted *)
Definition reserved_close (c : N) : Prop := c < 1000 \/ c = 1004 \/ c = 1005 \/ c = 1006 \/ c = 1015 \/ (1016 <= c /\ c < 3000).
Definition definitely_valid (c : N) : Prop := (1000 <= c /\ c <= 1003) \/ (1007 <= c /\ c <= 1011) \/ (3000 <= c /\ c <= 4999).

Theorem reserved_codes_rejected c : reserved_close c -> invalid_close_code c = true.
Proof.
  unfold reserved_close, invalid_close_code. intros H.
  repeat rewrite orb_true_iff. repeat rewrite andb_true_iff. rewrite !N.ltb_lt, !N.leb_le. lia.
Qed.
Theorem valid_codes_accepted c : definitely_valid c -> invalid_close_code c = false.
Proof.
  unfold definitely_valid, invalid_close_code. intros H.
  apply Bool.not_true_is_false. intros E.
  repeat rewrite orb_true_iff in E. repeat rewrite andb_true_iff in E. rewrite !N.ltb_lt, !N.leb_le in E. lia.
Qed.

(* ---------- constants ---------- *)
Definition rfc_guid : bytes :=
  [x32;x35;x38;x45;x41;x46;x41;x35;x2d;x45;x39;x31;x34;x2d;x34;x37;x44;x41;x2d;x39;x35;x43;x41;x2d;x43;x35;x41;x42;x30;x44;x43;x38;x35;x42;x31;x31].
Theorem impl_constants :
  map n2b impl_ws_key = rfc_guid /\ impl_ws_version = 13 /\ impl_buffer_size = BUFFER_SIZE /\
  impl_status_normal = 1000 /\ impl_status_protocol_error = 1002.
Proof. vm_compute. repeat split; reflexivity. Qed.
