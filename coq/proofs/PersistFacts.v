(* persist(): structure of its output and bounds of the back-off delays. *)
From Coq Require Import List ZArith QArith Qminmax Lqa Lia Bool.
From Model Require Import Persist.
Import ListNotations.
Open Scope Q_scope.

(* the number of consecutive attempts without Ready, as the statement defines it *)
Definition retries_after (prev : nat) (a : attempt) : nat := if existsb (fun r => r) a then O else S prev.

Lemma pass_events_retries a : forall no idx r,
  snd (pass_events a no idx r) = if existsb (fun x => x) a then O else r.
Proof.
  induction a as [|x a IH]; intros no idx r; [reflexivity|].
  cbn [pass_events existsb]. specialize (IH no (S idx) (if x then O else r)).
  destruct (pass_events a no (S idx) (if x then O else r)) as [items rf]. cbn [snd] in *.
  rewrite IH. destruct x; cbn [orb]; [destruct (existsb _ a); reflexivity|reflexivity].
Qed.

(* connection events are passed through unchanged, in order, tagged with their attempt *)
Fixpoint tagged (a : attempt) (no idx : nat) : list pitem :=
  match a with [] => [] | r :: rest => PEvent no idx r :: tagged rest no (S idx) end.

Lemma pass_events_items a : forall no idx r, fst (pass_events a no idx r) = tagged a no idx.
Proof.
  induction a as [|x a IH]; intros no idx r; [reflexivity|].
  cbn [pass_events tagged]. specialize (IH no (S idx) (if x then O else r)).
  destruct (pass_events a no (S idx) (if x then O else r)) as [items rf]. cbn [fst] in *. rewrite IH. reflexivity.
Qed.

(* the reference description of persist()'s output *)
Fixpoint spec_items (mn mx : Q) (attempts : list attempt) (draws : list Q) (exits : list bool) (no prev : nat) : list pitem :=
  match attempts, draws, exits with
  | a :: attempts', u :: draws', e :: exits' =>
      let k := retries_after prev a in
      PConnect no :: tagged a no 0 ++ PBackOff (backoff mn mx u k) ::
      (if e then [] else spec_items mn mx attempts' draws' exits' (S no) k)
  | _, _, _ => []
  end.

Theorem persist_structure mn mx attempts : forall draws exits no prev,
  fst (persist mn mx attempts draws exits no prev) = spec_items mn mx attempts draws exits no prev.
Proof.
  induction attempts as [|a attempts IH]; intros draws exits no prev; [reflexivity|].
  destruct draws as [|u draws]; [reflexivity|]. destruct exits as [|e exits]; [reflexivity|].
  cbn [persist spec_items].
  pose proof (pass_events_items a no 0 (S prev)) as Hi. pose proof (pass_events_retries a no 0 (S prev)) as Hr.
  destruct (pass_events a no 0 (S prev)) as [items r2]. cbn [fst snd] in Hi, Hr. subst items.
  assert (Ek : r2 = retries_after prev a) by (rewrite Hr; reflexivity). rewrite Ek.
  destruct e.
  - cbn [fst]. reflexivity.
  - specialize (IH draws exits (S no) (retries_after prev a)).
    destruct (persist mn mx attempts draws exits (S no) (retries_after prev a)) as [rest running]. cbn [fst] in *.
    rewrite IH. reflexivity.
Qed.

(* persist() returns only after exit_event.wait() answered true; otherwise it is still running when the script ends *)
Theorem persist_stops_only_on_exit mn mx attempts : forall draws exits no prev,
  snd (persist mn mx attempts draws exits no prev) = false -> In true exits.
Proof.
  induction attempts as [|a attempts IH]; intros draws exits no prev H; [discriminate|].
  destruct draws as [|u draws]; [discriminate|]. destruct exits as [|e exits]; [discriminate|].
  cbn [persist] in H.
  destruct (pass_events a no 0 (S prev)) as [items r2].
  destruct e; [left; reflexivity|].
  right. specialize (IH draws exits (S no) r2).
  destruct (persist mn mx attempts draws exits (S no) r2) as [rest running]. cbn [snd] in *. apply IH. exact H.
Qed.

(* every delay lies in [min_wait, max_wait] *)
Theorem backoff_bounds mn mx u k : 0 <= mn -> mn <= mx -> 0 <= u -> u < 1 ->
  mn <= backoff mn mx u k /\ backoff mn mx u k <= mx.
Proof.
  intros H0 H1 Hu0 Hu1. unfold backoff.
  set (m := Qmin (mx - mn) (pow2 k)).
  assert (Hm0 : 0 <= m).
  { unfold m. apply Q.min_glb; [lra|]. unfold pow2. change 0 with (inject_Z 0). rewrite <- Zle_Qle. apply Z.pow_nonneg. lia. }
  assert (Hm1 : m <= mx - mn) by (unfold m; apply Q.le_min_l).
  assert (Hum0 : 0 <= u * m) by (apply Qmult_le_0_compat; assumption).
  assert (Hum1 : u * m <= m).
  { setoid_replace m with (1 * m) at 2 by ring. apply Qmult_le_compat_r; [lra|exact Hm0]. }
  split; lra.
Qed.

(* the randomised upper limit: min + min(max - min, 2^k); it doubles with every consecutive failure and is back at
   min + min(max - min, 1) after an attempt that reached Ready *)
Theorem backoff_limit mn mx u k : 0 <= u -> u < 1 -> mn <= mx ->
  backoff mn mx u k <= mn + Qmin (mx - mn) (pow2 k).
Proof.
  intros Hu0 Hu1 Hm. unfold backoff.
  set (m := Qmin (mx - mn) (pow2 k)).
  assert (Hm0 : 0 <= m).
  { unfold m. apply Q.min_glb; [lra|]. unfold pow2. change 0 with (inject_Z 0). rewrite <- Zle_Qle. apply Z.pow_nonneg. lia. }
  assert (Hum1 : u * m <= m).
  { setoid_replace m with (1 * m) at 2 by ring. apply Qmult_le_compat_r; [lra|exact Hm0]. }
  lra.
Qed.

Lemma retries_reset prev a : In true a -> retries_after prev a = O.
Proof.
  intros H. unfold retries_after. replace (existsb (fun r => r) a) with true; [reflexivity|].
  symmetry. apply existsb_exists. exists true. split; [exact H|reflexivity].
Qed.
Lemma retries_grow prev a : ~ In true a -> retries_after prev a = S prev.
Proof.
  intros H. unfold retries_after. replace (existsb (fun r => r) a) with false; [reflexivity|].
  symmetry. apply Bool.not_true_is_false. intros E. apply existsb_exists in E as (x & Hx & Ex). subst x. contradiction.
Qed.
Lemma pow2_double k : pow2 (S k) == 2 * pow2 k.
Proof. unfold pow2. rewrite Nat2Z.inj_succ, Z.pow_succ_r by lia. rewrite inject_Z_mult. reflexivity. Qed.
