(* WebsocketSession._regular in the connection model refines the pure timer step functions of TimerFacts. *)
From Coq Require Import List NArith ZArith Lia Bool.
From Coq.Strings Require Import Byte.
From RecordUpdate Require Import RecordSet.
From Model Require Import Bytes Utf8 Frame Parser FrameParser Response Conn.
From Proofs Require Import ConnFacts TimerFacts.
Import ListNotations RecordSetNotations.
Open Scope Z_scope.

(* application calls and library writes never touch the timer fields *)
Definition same_timers (c c' : conn) : Prop :=
  k_poll_start c' = k_poll_start c /\ k_next_ping c' = k_next_ping c /\ k_last_pong c' = k_last_pong c /\
  k_start c' = k_start c /\ k_now c' = k_now c /\ k_ready c' = k_ready c.

Ltac st_solve := unfold same_timers; intros; cbn; repeat split; try reflexivity; try tauto;
                 repeat match goal with H : _ /\ _ |- _ => destruct H end; try congruence.

Lemma same_timers_refl c : same_timers c c. Proof. st_solve. Qed.
Lemma same_timers_trans a b c : same_timers a b -> same_timers b c -> same_timers a c.
Proof. st_solve. Qed.

Section WithCfg.
  Variable cf : cfg.
  Variable app : strategy.

  Lemma timers_deliver c e : same_timers c (fst (deliver app c e)).
  Proof. eapply fr_deliver with (P := same_timers) (ok_item := fun _ => True); try exact same_timers_refl; try exact same_timers_trans; try (intros; apply send_from_emit with (ok_item := fun _ => True); try exact same_timers_refl; try exact same_timers_trans); try (intros; exact I); st_solve. Qed.
  Lemma timers_send_frame c op r p : same_timers c (fst (send_frame c op r p)).
  Proof. apply send_from_emit with (ok_item := fun _ => True); try exact same_timers_refl; try exact same_timers_trans; try (intros; apply send_from_emit with (ok_item := fun _ => True); try exact same_timers_refl; try exact same_timers_trans); try (intros; exact I); st_solve. Qed.

  Lemma session_time_same c c' : same_timers c c' -> session_time c' = session_time c.
  Proof. intros (_ & _ & _ & H1 & H2 & _). unfold session_time. rewrite H1, H2. reflexivity. Qed.

  Ltac t_one :=
    match goal with
    | |- context [deliver app ?c ?e] =>
        let H := fresh "Hd" in let H' := fresh "Hds" in
        pose proof (timers_deliver c e) as H; pose proof (deliver_status app c e) as H';
        destruct (deliver app c e) as [? ?]; cbn [fst snd] in H, H'
    | |- context [send_frame ?c ?o ?r ?p] =>
        let H := fresh "Hs" in pose proof (timers_send_frame c o r p) as H; destruct (send_frame c o r p) as [? ?]; cbn [fst snd] in H
    | |- context [if ?b then _ else _] =>
        lazymatch b with
        | context [match _ with _ => _ end] => fail
        | _ => let E := fresh "E" in destruct b eqn:E
        end
    | |- context [match ?x with _ => _ end] =>
        lazymatch x with
        | context [match _ with _ => _ end] => fail
        | _ => let E := fresh "E" in destruct x eqn:E
        end
    end.

  (* the poll field after one _regular() call is poll_step of the field before *)
  Theorem regular_poll_start c : k_ready c = true ->
    k_poll_start (fst (regular cf app c)) = fst (poll_step (c_poll cf) (k_poll_start c) (session_time c)).
  Proof.
    intros Hr. unfold regular, poll_step. rewrite Hr. cbn [negb].
    repeat t_one; unfold same_timers in *; cbn in *;
      repeat match goal with H : _ /\ _ |- _ => destruct H end; congruence.
  Qed.

  (* the ping field: ping_step, provided the Poll event (if any) was handled without abandoning the loop *)
  Theorem regular_next_ping c : k_ready c = true ->
    k_next_ping (fst (regular cf app c)) = k_next_ping c \/
    k_next_ping (fst (regular cf app c)) = fst (ping_step (c_ping_rate cf) (k_next_ping c) (session_time c)).
  Proof.
    intros Hr. unfold regular, ping_step. rewrite Hr. cbn [negb]. change Conn.ceil_div with ceil_div.
    repeat t_one; unfold same_timers in *; cbn in *;
      repeat match goal with H : _ /\ _ |- _ => destruct H end;
      first [left; congruence | right; congruence].
  Qed.

  (* a forced disconnect out of _regular() happens only when one of the two armed timeouts is due at this instant *)
  Theorem regular_force_only_when_due c : k_ready c = true ->
    snd (regular cf app c) = SRaise SForce ->
    (exists v, c_ping_timeout cf = Some v /\ v <> 0 /\ session_time c - k_last_pong c > v) \/
    (exists v s, c_close_timeout cf = Some v /\ v <> 0 /\ s + v <= session_time c).
  Proof.
    intros Hr. unfold regular, zpos. rewrite Hr. cbn [negb].
    repeat t_one; unfold same_timers in *; cbn in *;
      repeat match goal with H : _ /\ _ |- _ => destruct H end; intros Hst; try discriminate;
      try (subst; repeat match goal with H : _ \/ _ |- _ => destruct H end; discriminate);
      repeat match goal with
             | H : Some _ = Some _ |- _ => inversion H; subst; clear H
             | H : (_ =? 0) = false |- _ => apply Z.eqb_neq in H
             | H : (_ >? _) = true |- _ => apply Z.gtb_lt in H
             | H : (_ >=? _) = true |- _ => apply Z.geb_le in H
             end;
      try first [ left; eexists; split; [reflexivity|split; [assumption|lia]]
            | right; do 2 eexists; split; [reflexivity|split; [assumption|eassumption]] ].
  Qed.

  (* ... the close deadline being the one of the Close the connection has sent (the state returned still says when) *)
  Theorem regular_force_only_when_due_strong c : k_ready c = true ->
    snd (regular cf app c) = SRaise SForce ->
    (exists v, c_ping_timeout cf = Some v /\ v <> 0 /\ session_time c - k_last_pong c > v) \/
    (exists v s, c_close_timeout cf = Some v /\ v <> 0 /\ k_sent_close_time (fst (regular cf app c)) = Some s /\ s + v <= session_time c).
  Proof.
    intros Hr. unfold regular, zpos. rewrite Hr. cbn [negb].
    repeat t_one; unfold same_timers in *; cbn in *;
      repeat match goal with H : _ /\ _ |- _ => destruct H end; intros Hst; try discriminate;
      try (subst; repeat match goal with H : _ \/ _ |- _ => destruct H end; discriminate);
      repeat match goal with
             | H : Some _ = Some _ |- _ => inversion H; subst; clear H
             | H : (_ =? 0) = false |- _ => apply Z.eqb_neq in H
             | H : (_ >? _) = true |- _ => apply Z.gtb_lt in H
             | H : (_ >=? _) = true |- _ => apply Z.geb_le in H
             end;
      try first [ left; eexists; split; [reflexivity|split; [assumption|lia]]
            | right; do 2 eexists; split; [reflexivity|split; [assumption|split; [eassumption|assumption]]] ].
  Qed.

  (* the other direction: when _regular() lets the loop go on, no armed deadline has passed at this instant -- the close
     timeout counted from the Close the connection has sent, the ping timeout from the last Pong *)
  Theorem regular_ok_means_not_due c : k_ready c = true ->
    snd (regular cf app c) = SOk ->
    (forall v s, c_close_timeout cf = Some v -> v <> 0 -> k_sent_close_time (fst (regular cf app c)) = Some s -> session_time c < s + v) /\
    (forall v, c_ping_timeout cf = Some v -> v <> 0 -> session_time c - k_last_pong c <= v).
  Proof.
    intros Hr. unfold regular, zpos. rewrite Hr. cbn [negb].
    repeat t_one; unfold same_timers in *; cbn in *;
      repeat match goal with H : _ /\ _ |- _ => destruct H end; intros Hst; try discriminate;
      try (subst; repeat match goal with H : _ \/ _ |- _ => destruct H end; discriminate);
      (split; [intros ? ? Hv Hn Hs|intros ? Hv Hn]);
      repeat match goal with
             | H : Some _ = Some _ |- _ => inversion H; subst; clear H
             | H : None = Some _ |- _ => discriminate H
             | H : Some _ = None |- _ => discriminate H
             | H : (_ =? 0) = false |- _ => apply Z.eqb_neq in H
             | H : (_ =? 0) = true |- _ => apply Z.eqb_eq in H
             | H : (_ >? _) = true |- _ => apply Z.gtb_lt in H
             | H : (_ >? _) = false |- _ => apply Z.gtb_ltb in H; apply Z.ltb_ge in H
             | H : (_ >=? _) = true |- _ => apply Z.geb_le in H
             | H : (_ >=? _) = false |- _ => rewrite Z.geb_leb in H; apply Z.leb_gt in H
             end; try congruence; try lia.
  Qed.

  (* before Ready no timer runs at all *)
  Theorem regular_before_ready c : k_ready c = false -> regular cf app c = (c, SOk).
  Proof. intros H. unfold regular. rewrite H. reflexivity. Qed.
End WithCfg.
