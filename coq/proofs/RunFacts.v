(* The session loop as a whole: how every run ends. *)
From Coq Require Import List NArith ZArith Lia Bool.
From Coq.Strings Require Import Byte.
From RecordUpdate Require Import RecordSet.
From Model Require Import Bytes Utf8 Frame Parser FrameParser Response Conn.
From Proofs Require Import ConnFacts TraceFacts.
Import ListNotations RecordSetNotations.
Open Scope N_scope.

Definition released (c : conn) : Prop := k_sock c = false.
Definition blocked (c : conn) : Prop := exists tr, k_tr c = TBlocked :: tr.

Lemma close_socket_released c : released (close_socket c).
Proof. unfold released, close_socket. destruct (k_sock c) eqn:E; [reflexivity|exact E]. Qed.

Section WithCfg.
  Variable cf : cfg.
  Variable app : strategy.

  (* every exit of the try block ends in the finally clause: the selector is closed, then the socket *)
  Lemma finish_released c st : released (finish app c st).
  Proof.
    unfold finish. destruct st.
    - destruct (deliver app (close_socket c) (EvDisconnected true)) as [c1 st1]. apply close_socket_released.
    - destruct (deliver app (close_socket c) (EvDisconnected false)) as [c1 st1]. apply close_socket_released.
    - apply close_socket_released.
  Qed.

  Lemma finish_closes_selector c st : exists l1 l2, k_tr (finish app c st) = l1 ++ TSelClose :: l2.
  Proof.
    assert (H : forall c0, exists l1 l2, k_tr (close_socket (emit TSelClose c0)) = l1 ++ TSelClose :: l2).
    { intros c0. unfold close_socket. destruct (k_sock (emit TSelClose c0)).
      - exists [TSockClose], (k_tr c0). reflexivity.
      - exists [], (k_tr c0). reflexivity. }
    unfold finish. destruct st.
    - destruct (deliver app (close_socket c) (EvDisconnected true)) as [c1 st1]. apply H.
    - destruct (deliver app (close_socket c) (EvDisconnected false)) as [c1 st1]. apply H.
    - apply H.
  Qed.

  (* the loop either is still waiting (the script ran out) or has released the socket and closed the selector *)
  Lemma loop_released steps : forall c,
    blocked (loop cf app steps c) \/
    (released (loop cf app steps c) /\ exists l1 l2, k_tr (loop cf app steps c) = l1 ++ TSelClose :: l2).
  Proof.
    induction steps as [|st rest IH]; intros c; cbn [loop].
    - destruct (k_closed c); [right; split; [apply finish_released|apply finish_closes_selector]|].
      left. eexists. reflexivity.
    - destruct (k_closed c); [right; split; [apply finish_released|apply finish_closes_selector]|].
      destruct st as [dt|dt r|dt].
      + destruct (regular cf app (advance c dt)) as [c1 s1]. destruct s1; [apply IH| |];
          right; (split; [apply finish_released|apply finish_closes_selector]).
      + destruct (regular cf app (advance c dt)) as [c1 s1].
        destruct s1; [| right; (split; [apply finish_released|apply finish_closes_selector])
                      | right; (split; [apply finish_released|apply finish_closes_selector])].
        destruct (if k_sock c1 then r else REof) as [d| | |];
          try (right; split; [apply finish_released|apply finish_closes_selector]).
        * destruct d as [|b d].
          -- destruct (is_active c1); right; (split; [apply finish_released|apply finish_closes_selector]).
          -- destruct (feedf cf app c1 (b :: d)) as [c2 s2]. destruct s2; [apply IH| |];
               right; (split; [apply finish_released|apply finish_closes_selector]).
        * destruct (is_active c1); right; (split; [apply finish_released|apply finish_closes_selector]).
      + right. split; [apply finish_released|apply finish_closes_selector].
  Qed.

  (* application calls cannot re-open the socket *)
  Definition sock_mono (c c' : conn) : Prop := k_sock c = false -> k_sock c' = false.
  Lemma sock_deliver c e : sock_mono c (fst (deliver app c e)).
  Proof.
    eapply fr_deliver with (P := sock_mono) (ok_item := fun _ => True);
      try (intros; apply send_from_emit with (ok_item := fun _ => True));
      try (unfold sock_mono; intros; cbn; auto; fail); try (intros; exact I).
  Qed.

  (* C13: however the consumer leaves the loop -- at any event, by break / exception / generator.close() or by an
     exception leaving `with ws:` -- the socket is released when run() is over, unless the script simply ran out while
     the client was still waiting (then nothing was abandoned) *)
  Theorem run_releases_socket c0 cn steps :
    k_sock c0 = false ->
    blocked (run cf app c0 cn steps) \/ released (run cf app c0 cn steps).
  Proof.
    intros H0. unfold run.
    assert (R : blocked (run_gen cf app c0 cn steps) \/ released (run_gen cf app c0 cn steps)).
    { unfold run_gen.
      pose proof (sock_deliver c0 EvConnecting H0) as H1.
      destruct (deliver app c0 EvConnecting) as [c1 st1]. cbn [fst] in H1.
      destruct st1; [|right; exact H1|right; exact H1].
      destruct cn.
      - set (c2 := c1 <| k_sock := true |>).
        match goal with |- context [let '(c3, r) := ?X in _] => destruct X as [c3 r] end.
        destruct r as [x|].
        + right. pose proof (sock_deliver (close_socket c3) EvConnectFail (close_socket_released c3)) as H.
          destruct (deliver app (close_socket c3) EvConnectFail). exact H.
        + destruct (deliver app c3 EvConnected) as [c4 st4].
          destruct st4; [|right; apply close_socket_released|right; apply close_socket_released].
          destruct (loop_released steps c4) as [B|[R _]]; [left; exact B|right; exact R].
      - right. pose proof (sock_deliver c1 EvConnectFail H1) as H. destruct (deliver app c1 EvConnectFail). exact H.
      - right. pose proof (sock_deliver c1 EvConnectFail H1) as H. destruct (deliver app c1 EvConnectFail). exact H. }
    destruct (k_with (run_gen cf app c0 cn steps)).
    - right. apply close_socket_released.
    - exact R.
  Qed.
End WithCfg.
