(* The environment hypothesis of the C15 theorems -- "the loop wakes up at least every p ticks" -- derived instead of
   assumed: under a selector that honours its timeout (returns as soon as the next arrival is there, and after exactly the
   timeout otherwise), a loop that asks for `p` every time and whose handlers take no time wakes up at non-decreasing
   instants at most p apart, for EVERY arrival time line.  The bounds on Polls, automatic Pings and the close timeout then
   hold outright. *)
From Coq Require Import List ZArith Lia Bool.
From Model Require Import Selector.
From Proofs Require Import TimerFacts.
Import ListNotations.
Open Scope Z_scope.

Theorem wakes_nondecreasing fuel p : 0 <= p -> forall now arr, nondecreasing_from now (wakes fuel p now arr).
Proof.
  intros Hp. induction fuel as [|f IH]; intros now arr; [exact I|].
  cbn [wakes]. destruct arr as [|a rest].
  - cbn [nondecreasing_from]. split; [lia|apply IH].
  - destruct (a <=? now + p); cbn [nondecreasing_from]; (split; [lia|apply IH]).
Qed.

Theorem wakes_gaps fuel p : 0 <= p -> forall now arr, gaps_le p now (wakes fuel p now arr).
Proof.
  intros Hp. induction fuel as [|f IH]; intros now arr; [exact I|].
  cbn [wakes]. destruct arr as [|a rest].
  - cbn [gaps_le]. split; [lia|apply IH].
  - destruct (a <=? now + p) eqn:E; cbn [gaps_le]; (split; [|apply IH]).
    + apply Z.leb_le in E. lia.
    + lia.
Qed.

(* an arrival is noticed the moment it is there: when the loop is not behind, it wakes up exactly at the arrival *)
Theorem arrival_seen_at_once fuel p now a rest : 0 <= p -> now <= a -> (Z.to_nat ((a - now) / Z.max p 1) + 1 <= fuel)%nat -> 0 < p ->
  In a (wakes fuel p now (a :: rest)).
Proof.
  intros Hp0 Hle Hf Hp. revert now Hle Hf.
  induction fuel as [|f IH]; intros now Hle Hf; [lia|].
  cbn [wakes]. destruct (a <=? now + p) eqn:E.
  - left. apply Z.leb_le in E. lia.
  - right. apply Z.leb_gt in E. apply IH; [lia|].
    assert (M : Z.max p 1 = p) by lia. rewrite M in *.
    assert (D : (a - now) / p = (a - (now + p)) / p + 1).
    { replace (a - now) with ((a - (now + p)) + 1 * p) by lia. rewrite Z.div_add by lia. reflexivity. }
    rewrite D in Hf. assert (0 <= (a - (now + p)) / p) by (apply Z.div_pos; lia). lia.
Qed.

(* ---------- the C15 bounds without the hypothesis ---------- *)
Corollary polls_under_honest_selector fuel p s arr : 0 < p ->
  chain (fun a b => p <= b - a) s (polls p (Some s) (wakes fuel p s arr)) /\
  chain (fun a b => b - a < 2 * p) s (polls p (Some s) (wakes fuel p s arr)).
Proof.
  intros Hp. split.
  - apply (polls_not_closer p _ s s); [lia|apply wakes_nondecreasing; lia].
  - apply (polls_not_further p _ s s); [lia|lia|apply wakes_nondecreasing; lia|apply wakes_gaps; lia].
Qed.

Corollary ping_under_honest_selector fuel r p k arr : 0 < r -> 0 < p -> 0 <= k ->
  (exists t, In t (wakes fuel p 0 arr) /\ k * r < t) ->
  exists u, In u (pings r 0 (wakes fuel p 0 arr)) /\ k * r < u <= k * r + p.
Proof.
  intros Hr Hp Hk Hex.
  apply (ping_after_every_multiple r p k Hr _ 0 0); [nia|exists 0; lia|nia|apply wakes_gaps; lia|apply wakes_nondecreasing; lia|exact Hex].
Qed.

Corollary close_timeout_under_honest_selector fuel p v s arr : 0 < p -> v <> 0 -> 0 < s + v ->
  forall t, In t (wakes fuel p 0 arr) -> close_overdue (Some v) (Some s) t = true ->
  exists t1, In t1 (wakes fuel p 0 arr) /\ close_overdue (Some v) (Some s) t1 = true /\ s + v <= t1 <= s + v + p.
Proof.
  intros Hp Hv Hs t Hin Ho.
  apply (first_overdue_check_within_p (Some v) v s p eq_refl Hv _ 0 Hs (wakes_gaps fuel p ltac:(lia) 0 arr)
           (wakes_nondecreasing fuel p ltac:(lia) 0 arr) t Hin Ho).
Qed.

Example wakes_example : wakes 8 5 0 [3; 4; 17; 18] = [3; 4; 9; 14; 17; 18; 23; 28].
Proof. reflexivity. Qed.
