(* The closing handshake in single-threaded histories: at most one Close frame is ever written on a connection and no
   frame is written after it -- as an invariant of the connection model under every environment and every strategy. *)
From Coq Require Import List NArith ZArith Lia Bool.
From Coq.Strings Require Import Byte.
From RecordUpdate Require Import RecordSet.
From Model Require Import Bytes Utf8 Frame Parser FrameParser Response Conn.
From Proofs Require Import BytesFacts FrameFacts ConnFacts ApiFacts.
Import ListNotations RecordSetNotations.
Open Scope N_scope.

Definition write_opcode (w : bytes) : N := match w with b :: _ => b2n b mod 16 | [] => 16 end.
Definition is_write (x : titem) : bool := match x with TWrite _ => true | _ => false end.
Definition is_close_write (x : titem) : bool := match x with TWrite w => write_opcode w =? OP_CLOSE | _ => false end.
Definition close_count (tr : list titem) : nat := length (filter is_close_write tr).

(* the trace is most recent first: every successful write has no Close frame before it *)
Fixpoint tr_ok (tr : list titem) : Prop :=
  match tr with
  | [] => True
  | x :: r => (is_write x = true -> close_count r = 0%nat) /\ tr_ok r
  end.

Definition cinv (c : conn) : Prop :=
  tr_ok (k_tr c) /\ ((1 <= close_count (k_tr c))%nat -> k_closing c || k_closed c = true).

Definition keeps (c c' : conn) : Prop := cinv c -> cinv c'.

Lemma keeps_refl c : keeps c c. Proof. intros H; exact H. Qed.
Lemma keeps_trans a b c : keeps a b -> keeps b c -> keeps a c.
Proof. unfold keeps; auto. Qed.

Lemma close_count_cons x r : close_count (x :: r) = ((if is_close_write x then 1 else 0) + close_count r)%nat.
Proof. unfold close_count. cbn [filter]. destruct (is_close_write x); reflexivity. Qed.

Lemma tr_emit x c : k_tr (emit x c) = x :: k_tr c. Proof. reflexivity. Qed.
Lemma closing_emit x c : k_closing (emit x c) = k_closing c. Proof. reflexivity. Qed.
Lemma closed_emit x c : k_closed (emit x c) = k_closed c. Proof. reflexivity. Qed.

(* appending anything that is not a successful write *)
Lemma keeps_emit c x : is_write x = false -> keeps c (emit x c).
Proof.
  intros Hx (H1 & H2). unfold cinv. rewrite tr_emit, closing_emit, closed_emit. split.
  - cbn [tr_ok]. split; [rewrite Hx; discriminate|exact H1].
  - rewrite close_count_cons. destruct x; cbn [is_write is_close_write] in *; try discriminate; exact H2.
Qed.
Lemma keeps_field c c' : k_tr c' = k_tr c -> (k_closing c || k_closed c = true -> k_closing c' || k_closed c' = true) -> keeps c c'.
Proof. intros Ht Hf (H1 & H2). unfold cinv. rewrite Ht. split; auto. Qed.

Lemma build_opcode op rsv key p : op < 16 -> write_opcode (build op rsv key p) = op.
Proof.
  intros H. unfold build, write_opcode. pose proof (byte0_decode rsv op H) as (_ & _ & _ & _ & E). exact E.
Qed.

(* the heart: send_frame writes only when neither flag is set -- hence when no Close has been written -- and a Close
   frame sets the closing flag in the same step *)
Lemma keeps_send_frame c op r p : op < 16 -> keeps c (fst (send_frame c op r p)).
Proof.
  intros Hop. unfold send_frame, pop_key.
  assert (W : forall c0 key, keeps c0 (fst (write c0 (build op r key p) (op =? OP_CLOSE)))).
  { intros c0 key. unfold write.
    destruct (k_sock c0); cbn [negb]; [|apply keeps_refl].
    destruct (k_closed c0) eqn:Ecl; [apply keeps_refl|].
    destruct (k_closing c0) eqn:Ecg; [apply keeps_refl|].
    intros (H1 & H2).
    assert (Hz : close_count (k_tr c0) = 0%nat).
    { destruct (close_count (k_tr c0)) eqn:Ez; [reflexivity|]. assert (Hge : (1 <= S n)%nat) by lia.
      specialize (H2 Hge). rewrite Ecl, Ecg in H2. discriminate. }
    set (c1 := if op =? OP_CLOSE then _ else c0).
    assert (Htr : k_tr c1 = k_tr c0) by (unfold c1; destruct (op =? OP_CLOSE); reflexivity).
    unfold pop_wfault.
    assert (Hok : forall c2, k_tr c2 = k_tr c0 -> k_closing c2 = k_closing c1 -> k_closed c2 = k_closed c1 ->
                  cinv (emit (TWrite (build op r key p)) c2)).
    { intros c2 Ht2 Hg2 Hd2. unfold cinv. rewrite tr_emit, closing_emit, closed_emit, Ht2. split.
      - cbn [tr_ok]. split; [intros _; exact Hz|exact H1].
      - rewrite close_count_cons, Hz. unfold is_close_write. rewrite build_opcode by exact Hop.
        rewrite Hg2. unfold c1. destruct (op =? OP_CLOSE); [intros _; reflexivity|lia]. }
    assert (Hfail : forall c2, k_tr c2 = k_tr c0 -> cinv (emit (TWriteFail (build op r key p)) c2)).
    { intros c2 Ht2. unfold cinv. rewrite tr_emit, closing_emit, closed_emit, Ht2. split.
      - cbn [tr_ok]. split; [discriminate|exact H1].
      - rewrite close_count_cons, Hz. cbn [is_close_write]. lia. }
    destruct (k_wfaults c1) as [|w ws]; cbn [fst].
    - apply Hok; auto.
    - destruct w; cbn [fst]; [apply Hok|apply Hfail|apply Hfail]; auto. }
  destruct (k_keys c) as [|k ks]; [apply W|].
  eapply keeps_trans; [|apply W]. apply keeps_field; auto.
Qed.

Lemma keeps_close_socket0 c : keeps c (close_socket c).
Proof.
  unfold close_socket. destruct (k_sock c); [|apply keeps_refl].
  eapply keeps_trans; [apply (keeps_field c (c <| k_sock := false |>)); auto|apply keeps_emit; reflexivity].
Qed.

Ltac keeps_inst L :=
  first [eapply L with (P := keeps) (ok_item := fun x => is_write x = false) | eapply L with (P := keeps)];
  try exact keeps_refl; try exact keeps_trans; try exact keeps_close_socket0;
  try (intros; apply keeps_send_frame; assumption);
  try (intros; apply keeps_emit; assumption);
  try (intros; apply keeps_field; [reflexivity|cbn; intros Hf; rewrite ?orb_true_r; auto]);
  try (intros; reflexivity).

Section WithCfg.
  Variable cf : cfg.
  Variable app : strategy.

  Lemma keeps_api_call c a : keeps c (fst (api_call c a)).
  Proof. keeps_inst fr_api_call. Qed.
  Lemma keeps_deliver c e : keeps c (fst (deliver app c e)).
  Proof. keeps_inst fr_deliver. Qed.
  Lemma keeps_regular c : keeps c (fst (regular cf app c)).
  Proof. keeps_inst fr_regular. Qed.
  Lemma keeps_close_socket c : keeps c (close_socket c).
  Proof. keeps_inst fr_close_socket. Qed.
  Lemma keeps_on_disconnect c : keeps c (on_disconnect c).
  Proof. keeps_inst fr_on_disconnect. Qed.
  Lemma keeps_feed_yield c e post : (forall c1, keeps c1 (fst (post c1))) -> keeps c (fst (feed_yield cf app c e post)).
  Proof. intros H. keeps_inst fr_feed_yield. exact H. Qed.
  Lemma keeps_raise_in_feed c e : keeps c (fst (raise_in_feed cf app c e)).
  Proof. keeps_inst fr_raise_in_feed. Qed.
  Lemma keeps_build_message c frames : keeps c (fst (build_message c frames)).
  Proof. keeps_inst fr_build_message. Qed.
  Lemma keeps_on_message c m : keeps c (fst (fst (on_message cf app c m))).
  Proof. keeps_inst fr_on_message. intros e; destruct e; try exact I; reflexivity. Qed.
  Lemma keeps_stream_frame c f :
    match stream_frame c f with SNone c1 | SMsg c1 _ => keeps c c1 | SErr => True end.
  Proof. pose proof (fr_stream_frame keeps keeps_refl) as H. apply H. intros. apply keeps_field; auto. Qed.

  Lemma keeps_on_item c x : keeps c (fst (fst (on_item cf app c x))).
  Proof.
    unfold on_item. destruct x as [data|f].
    - destruct (on_response (c_accept cf) (parse_response data)) as [proto d|].
      + match goal with |- context [feed_yield cf app ?c0 ?e ?post] =>
          pose proof (keeps_feed_yield c0 e post ltac:(intros; apply keeps_refl)) as H;
          destruct (feed_yield cf app c0 e post) as [c2 st]; cbn [fst] in * end.
        eapply keeps_trans; [|exact H]. destruct d; [apply keeps_field; auto|apply keeps_refl].
      + match goal with |- context [feed_yield cf app ?c0 ?e ?post] =>
          pose proof (keeps_feed_yield c0 e post ltac:(intros; apply keeps_refl)) as H;
          destruct (feed_yield cf app c0 e post) as [c2 st]; cbn [fst] in * end.
        eapply keeps_trans; [apply keeps_on_disconnect|exact H].
    - pose proof (keeps_stream_frame c f) as Hs. destruct (stream_frame c f) as [c1|c1 frames|].
      + exact Hs.
      + pose proof (keeps_build_message c1 frames) as Hb. destruct (build_message c1 frames) as [c2 r]. cbn [fst] in Hb.
        destruct r as [m|e].
        * eapply keeps_trans; [exact Hs|]. eapply keeps_trans; [exact Hb|]. apply keeps_on_message.
        * pose proof (keeps_raise_in_feed c2 e) as Hr. destruct (raise_in_feed cf app c2 e) as [c3 st]. cbn [fst] in *.
          eapply keeps_trans; [exact Hs|]. eapply keeps_trans; [exact Hb|exact Hr].
      + pose proof (keeps_raise_in_feed c MProtocol) as Hr. destruct (raise_in_feed cf app c MProtocol) as [c3 st]. exact Hr.
  Qed.

  Lemma keeps_feed fuel : forall c d, keeps c (fst (feed cf app fuel c d)).
  Proof.
    induction fuel as [|f IH]; intros c d; [apply keeps_refl|].
    cbn [feed]. destruct (k_closed c); [apply keeps_refl|].
    destruct (fp_pull (k_ps c) d) as [x s rest|s|e].
    - pose proof (keeps_on_item (c <| k_ps := s |>) x) as Ho.
      destruct (on_item cf app (c <| k_ps := s |>) x) as [[c1 st] fs]. cbn [fst] in Ho.
      assert (H0 : keeps c c1) by (eapply keeps_trans; [|exact Ho]; apply keeps_field; auto).
      destruct st; [destruct fs|..]; cbn [fst]; try exact H0. eapply keeps_trans; [exact H0|apply IH].
    - apply keeps_field; auto.
    - eapply keeps_trans; [|apply keeps_raise_in_feed]. apply keeps_field; auto.
  Qed.

  Lemma keeps_finish c st : keeps c (finish app c st).
  Proof.
    unfold finish.
    assert (F : forall c0, keeps c0 (close_socket (emit TSelClose c0))).
    { intros c0. eapply keeps_trans; [apply (keeps_emit c0 TSelClose); reflexivity|apply keeps_close_socket]. }
    destruct st.
    - pose proof (keeps_deliver (close_socket c) (EvDisconnected true)) as H.
      destruct (deliver app (close_socket c) (EvDisconnected true)) as [c1 st1]. cbn [fst] in H.
      eapply keeps_trans; [apply keeps_close_socket|]. eapply keeps_trans; [exact H|apply F].
    - pose proof (keeps_deliver (close_socket c) (EvDisconnected false)) as H.
      destruct (deliver app (close_socket c) (EvDisconnected false)) as [c1 st1]. cbn [fst] in H.
      eapply keeps_trans; [apply keeps_close_socket|]. eapply keeps_trans; [exact H|apply F].
    - apply F.
  Qed.

  Lemma keeps_loop steps : forall c, keeps c (loop cf app steps c).
  Proof.
    induction steps as [|st rest IH]; intros c; cbn [loop].
    - destruct (k_closed c); [apply keeps_finish|apply (keeps_emit c TBlocked); reflexivity].
    - destruct (k_closed c); [apply keeps_finish|].
      assert (A : forall dt, keeps c (advance c dt)).
      { intros dt. unfold advance. eapply keeps_trans; [|apply (keeps_emit _ TWait); reflexivity]. apply keeps_field; auto. }
      destruct st as [dt|dt r|dt].
      + pose proof (keeps_regular (advance c dt)) as Hr. destruct (regular cf app (advance c dt)) as [c1 s1]. cbn [fst] in Hr.
        assert (H1 : keeps c c1) by (eapply keeps_trans; [apply A|exact Hr]).
        destruct s1; [eapply keeps_trans; [exact H1|apply IH]|eapply keeps_trans; [exact H1|apply keeps_finish]..].
      + pose proof (keeps_regular (advance c dt)) as Hr. destruct (regular cf app (advance c dt)) as [c1 s1]. cbn [fst] in Hr.
        assert (H1 : keeps c c1) by (eapply keeps_trans; [apply A|exact Hr]).
        destruct s1; [|eapply keeps_trans; [exact H1|apply keeps_finish]..].
        destruct (if k_sock c1 then r else REof) as [d| | |];
          try (eapply keeps_trans; [exact H1|apply keeps_finish]).
        * destruct d as [|b d].
          -- destruct (is_active c1); eapply keeps_trans; [exact H1|apply keeps_finish|exact H1|apply keeps_finish].
          -- pose proof (keeps_feed (S (S (length (b :: d)))) c1 (b :: d)) as Hf. unfold feedf.
             destruct (feed cf app (S (S (length (b :: d)))) c1 (b :: d)) as [c2 s2]. cbn [fst] in Hf.
             assert (H2 : keeps c c2) by (eapply keeps_trans; [exact H1|exact Hf]).
             destruct s2; [eapply keeps_trans; [exact H2|apply IH]|eapply keeps_trans; [exact H2|apply keeps_finish]..].
        * destruct (is_active c1); eapply keeps_trans; [exact H1|apply keeps_finish|exact H1|apply keeps_finish].
      + eapply keeps_trans; [apply A|apply keeps_finish].
  Qed.

  Lemma cinv_init keys wf zt ct : cinv (init keys wf zt ct).
  Proof. unfold cinv, init. cbn. split; [exact I|lia]. Qed.

  (* the whole run *)
  Theorem run_keeps c0 cn steps : cinv c0 -> cinv (run cf app c0 cn steps).
  Proof.
    intros H0. unfold run.
    assert (R : cinv (run_gen cf app c0 cn steps)).
    { unfold run_gen.
      pose proof (keeps_deliver c0 EvConnecting H0) as H1.
      destruct (deliver app c0 EvConnecting) as [c1 st1]. cbn [fst] in H1.
      destruct st1; try exact H1.
      destruct cn.
      - set (c2 := c1 <| k_sock := true |>).
        assert (H2 : cinv c2) by (apply (keeps_field c1 c2); auto).
        assert (H3 : forall c3 r, (if negb (k_sock c2) then (c2, Some XUnavailable)
                     else if k_closed c2 then (c2, Some XClosed)
                     else if k_closing c2 then (c2, Some XClosing)
                     else let '(w, c') := pop_wfault c2 in
                          match w with WOk => (emit (TWriteReq true) c', None) | _ => (emit (TWriteReq false) c', Some XTransportFail) end) = (c3, r) -> cinv c3).
        { intros c3 r E. destruct (negb (k_sock c2)); [inversion E; subst; exact H2|].
          destruct (k_closed c2); [inversion E; subst; exact H2|]. destruct (k_closing c2); [inversion E; subst; exact H2|].
          unfold pop_wfault in E. destruct (k_wfaults c2) as [|w ws].
          - inversion E; subst. apply keeps_emit; auto.
          - assert (Hc' : cinv (c2 <| k_wfaults := ws |>)) by (apply (keeps_field c2); auto).
            destruct w; inversion E; subst; apply keeps_emit; auto. }
        match goal with |- context [let '(c3, r) := ?X in _] => destruct X as [c3 r] eqn:EX end.
        specialize (H3 c3 r eq_refl).
        destruct r as [x|].
        + pose proof (keeps_deliver (close_socket c3) EvConnectFail (keeps_close_socket c3 H3)) as H.
          destruct (deliver app (close_socket c3) EvConnectFail). exact H.
        + pose proof (keeps_deliver c3 EvConnected H3) as H4.
          destruct (deliver app c3 EvConnected) as [c4 st4]. cbn [fst] in H4.
          destruct st4; [apply keeps_loop; exact H4|apply keeps_close_socket; exact H4..].
      - pose proof (keeps_deliver c1 EvConnectFail H1) as H. destruct (deliver app c1 EvConnectFail). exact H.
      - pose proof (keeps_deliver c1 EvConnectFail H1) as H. destruct (deliver app c1 EvConnectFail). exact H. }
    destruct (k_with (run_gen cf app c0 cn steps)); [apply keeps_close_socket; exact R|exact R].
  Qed.
End WithCfg.

(* what the invariant says *)
Lemma tr_ok_one_close tr : tr_ok tr -> (close_count tr <= 1)%nat.
Proof.
  induction tr as [|x r IH]; intros H; [cbn; lia|]. destruct H as [H1 H2]. rewrite close_count_cons.
  destruct (is_close_write x) eqn:E.
  - assert (Hw : is_write x = true) by (destruct x; cbn in *; auto; discriminate). rewrite (H1 Hw). lia.
  - specialize (IH H2). lia.
Qed.
Lemma tr_ok_nothing_after_close tr : tr_ok tr -> forall a x b, tr = a ++ x :: b -> is_write x = true -> close_count b = 0%nat.
Proof.
  induction tr as [|y r IH]; intros H a x b E Hx.
  - destruct a; discriminate.
  - destruct H as [H1 H2]. destruct a as [|a0 a]; cbn in E; injection E as -> ->.
    + apply H1. exact Hx.
    + eapply IH; eauto.
Qed.

(* ---------- the handshake, step by step ---------- *)
(* close(code, reason) on an open connection writes exactly one Close frame with that code and reason and enters the
   closing state *)
Theorem close_writes_the_close_frame c code reason :
  k_sock c = true -> k_closed c = false -> k_closing c = false -> blen (close_payload code reason) <= 125 ->
  (match k_wfaults c with [] => True | w :: _ => w = WOk end) ->
  let c' := fst (ws_close c code reason) in
  k_tr c' = TWrite (build OP_CLOSE false (next_key c) (close_payload code reason)) :: k_tr c /\
  k_closing c' = true /\ snd (ws_close c code reason) = None.
Proof.
  intros Hs Hc Hg Hl Hw. unfold ws_close. rewrite Hc, Hg.
  replace (125 <? blen (close_payload code reason)) with false by (symmetry; apply N.ltb_ge; exact Hl).
  destruct (send_frame c OP_CLOSE false (close_payload code reason)) as [c1 r] eqn:E.
  assert (W : forall c0 d f, k_sock c0 = true -> k_closed c0 = false -> k_closing c0 = false ->
            (match k_wfaults c0 with [] => True | w :: _ => w = WOk end) -> snd (write c0 d f) = None).
  { intros c0 d f A B C D. unfold write. rewrite A, B, C. cbn [negb]. unfold pop_wfault.
    destruct f; cbn; destruct (k_wfaults c0) as [|w ws]; try reflexivity; subst w; reflexivity. }
  assert (Hr : snd (send_frame c OP_CLOSE false (close_payload code reason)) = None).
  { unfold send_frame, pop_key. destruct (k_keys c) as [|k ks]; apply W; auto. }
  rewrite E in Hr. cbn [snd] in Hr.
  subst r. apply send_frame_accepted in E. cbn [fst snd]. repeat split; auto.
Qed.

(* once closing or closed, every send is refused with a WebSocketError and writes nothing *)
Theorem send_refused_after_close c op rsv p :
  k_closing c = true \/ k_closed c = true ->
  exists x, snd (send_frame c op rsv p) = Some x /\ is_websocket_error x = true /\
            k_tr (fst (send_frame c op rsv p)) = k_tr c.
Proof.
  intros H. unfold send_frame, pop_key.
  assert (W : forall c0 d f, k_tr c0 = k_tr c -> k_closing c0 = k_closing c -> k_closed c0 = k_closed c ->
            exists x, snd (write c0 d f) = Some x /\ is_websocket_error x = true /\ k_tr (fst (write c0 d f)) = k_tr c).
  { intros c0 d f A B C. unfold write. destruct (k_sock c0); cbn [negb]; [|exists XUnavailable; auto].
    rewrite B, C. destruct (k_closed c) eqn:Ec; [exists XClosed; auto|].
    destruct (k_closing c) eqn:Eg; [exists XClosing; auto|]. destruct H; discriminate. }
  destruct (k_keys c) as [|k ks]; apply W; reflexivity.
Qed.

(* the server's Close while the client is closing: Closed is yielded and the websocket becomes closed, so the loop
   ends gracefully; the server's Close on an open connection: Closing is yielded (the application may still send during
   that event), then the echo with the same code, then the closing state *)
Theorem server_close_completes_handshake cf app c code reason :
  k_closed c = false -> k_closing c = true ->
  (match code with Some n => invalid_close_code n | None => false end) = false ->
  on_message cf app c (MClose code reason) =
    (let '(c1, st) := feed_yield cf app c (EvClosed code reason) (fun c1 => (c1 <| k_closed := true |> <| k_closing := false |>, SOk)) in
     (c1, st, FContinue)).
Proof. intros H1 H2 H3. unfold on_message. rewrite H3, H1, H2. reflexivity. Qed.

Theorem server_close_is_echoed cf app c code reason :
  k_closed c = false -> k_closing c = false ->
  (match code with Some n => invalid_close_code n | None => false end) = false ->
  on_message cf app c (MClose code reason) =
    (let '(c1, st) := feed_yield cf app c (EvClosing code reason)
                        (fun c1 => ((fst (ws_close c1 code reason)) <| k_closing := true |>, SOk)) in
     (c1, st, FContinue)).
Proof. intros H1 H2 H3. unfold on_message. rewrite H3, H1, H2. reflexivity. Qed.

(* a closed websocket ends the loop with a graceful Disconnected, whatever is left in the script *)
Theorem closed_ends_gracefully cf app steps c : k_closed c = true -> loop cf app steps c = finish app c SOk.
Proof. intros H. destruct steps; cbn [loop]; rewrite H; reflexivity. Qed.
