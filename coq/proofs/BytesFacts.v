(* Facts about bytes: enumeration, conversions, xor. *)
From Coq Require Import List NArith Bool Lia.
From Coq.Strings Require Import Byte.
From Model Require Import Bytes.
Import ListNotations.
Open Scope N_scope.

Lemma b2n_lt b : b2n b < 256.
Proof. unfold b2n. pose proof (Byte.to_N_bounded b). lia. Qed.

Lemma n2b_b2n b : n2b (b2n b) = b.
Proof.
  unfold n2b, b2n. rewrite N.mod_small by (pose proof (Byte.to_N_bounded b); lia).
  rewrite Byte.of_to_N. reflexivity.
Qed.

Lemma b2n_n2b n : n < 256 -> b2n (n2b n) = n.
Proof.
  intros H. unfold n2b, b2n. rewrite N.mod_small by lia.
  destruct (Byte.of_N n) as [b|] eqn:E.
  - apply Byte.to_of_N in E. exact E.
  - apply Byte.of_N_None_iff in E. lia.
Qed.

Lemma b2n_n2b_mod n : b2n (n2b n) = n mod 256.
Proof.
  unfold n2b, b2n. 
  assert (H : n mod 256 < 256) by (apply N.mod_lt; lia).
  destruct (Byte.of_N (n mod 256)) as [b|] eqn:E.
  - apply Byte.to_of_N in E. exact E.
  - apply Byte.of_N_None_iff in E. lia.
Qed.

Lemma b2n_inj a b : b2n a = b2n b -> a = b.
Proof. intros H. rewrite <- (n2b_b2n a), <- (n2b_b2n b), H. reflexivity. Qed.

Lemma all_bytes_nth b : nth_error all_bytes (N.to_nat (b2n b)) = Some b.
Proof. destruct b; vm_compute; reflexivity. Qed.

Lemma all_bytes_in b : In b all_bytes.
Proof. eapply nth_error_In. apply all_bytes_nth. Qed.

(* lifting a boolean sweep over all bytes to a universally quantified statement *)
Lemma forall_bytes (P : byte -> bool) : forallb P all_bytes = true -> forall b, P b = true.
Proof. intros H b. rewrite forallb_forall in H. apply H. apply all_bytes_in. Qed.

Lemma all_bytes_length : length all_bytes = 256%nat.
Proof. reflexivity. Qed.

(* xor *)
Lemma lt_256_log2 a : a < 256 -> a <> 0 -> N.log2 a < 8.
Proof. intros H H0. apply N.log2_lt_pow2; [lia|]. exact H. Qed.

Lemma lxor_lt_256 a b : a < 256 -> b < 256 -> N.lxor a b < 256.
Proof.
  intros Ha Hb.
  destruct (N.eq_dec (N.lxor a b) 0) as [E|E]; [rewrite E; lia|].
  change 256 with (2^8). apply N.log2_lt_pow2; [lia|].
  eapply N.le_lt_trans; [apply N.log2_lxor|].
  apply N.max_lub_lt.
  - destruct (N.eq_dec a 0) as [->|]; [simpl; lia|]. apply lt_256_log2; auto.
  - destruct (N.eq_dec b 0) as [->|]; [simpl; lia|]. apply lt_256_log2; auto.
Qed.

Lemma b2n_bxor a b : b2n (bxor a b) = N.lxor (b2n a) (b2n b).
Proof. unfold bxor. apply b2n_n2b. apply lxor_lt_256; apply b2n_lt. Qed.

Lemma bxor_involutive k b : bxor k (bxor k b) = b.
Proof.
  apply b2n_inj. rewrite !b2n_bxor. rewrite <- N.lxor_assoc, N.lxor_nilpotent, N.lxor_0_l. reflexivity.
Qed.

Lemma bytes_eqb_eq a b : bytes_eqb a b = true <-> a = b.
Proof.
  revert b; induction a as [|x a IH]; intros [|y b]; simpl; split; intros H; try discriminate; auto.
  - apply andb_true_iff in H as [H1 H2]. apply Byte.byte_dec_bl in H1. apply IH in H2. congruence.
  - inversion H; subst. rewrite Byte.byte_dec_lb by reflexivity. simpl. apply IH. reflexivity.
Qed.
