(* The proxy negotiation: only a complete 200 header block opens the tunnel; independent of segmentation. *)
From Coq Require Import List NArith Arith Lia Bool.
From Coq.Strings Require Import Byte.
From Model Require Import Bytes Parser Response Conn Proxy.
From Proofs Require Import ParserFacts FrameParserFacts.
Import ListNotations.
Open Scope N_scope.

Lemma px_resume_ok g buf :
  match px_resume g buf with
  | RItem _ _ a n | RAwait _ a n => aw_ok a n
  | RErr _ => True end.
Proof. unfold px_resume. destruct (r_status _) as [st|]; [|exact I]. destruct (st =? 200); simpl; [lia|exact I]. Qed.

Definition px_ok (s : pst unit) : Prop := st_ok unit CRLFCRLF s.
Lemma px_init_ok : px_ok px_init.
Proof. reflexivity. Qed.

Lemma px_validate_app g a b : px_validate g (a ++ b) = match px_validate g a with Some g' => px_validate g' b | None => None end.
Proof. reflexivity. Qed.

Theorem px_pull_split s a b : px_ok s ->
  px_pull s (a ++ b) = out_app unit pxitem pxerr (px_pull s a) b (fun s' => px_pull s' b).
Proof.
  intros H. unfold px_pull.
  apply (pull_split unit pxitem pxerr CRLFCRLF crlfcrlf_nonempty px_resume px_validate PxParse PxParse
           px_validate_app (fun g => eq_refl) px_resume_ok (length a)); auto.
Qed.

Theorem px_pull_ok s d : px_ok s ->
  match px_pull s d with
  | Item _ s' r => px_ok s' /\ (length r < length d)%nat
  | NeedMore s' => px_ok s'
  | Err _ => True
  end.
Proof.
  intros H. unfold px_pull, px_ok.
  eapply pullf_ok; try exact px_resume_ok; try exact crlfcrlf_nonempty; auto.
Qed.

(* what the negotiation does with the data part of the script, as a function of the concatenated bytes *)
Definition after_data (s : pst unit) (d : bytes) (k : pst unit -> px_outcome) : px_outcome :=
  match px_pull s d with
  | Item _ _ _ => PxTunnel
  | Err _ => PxFail
  | NeedMore s' => k s'
  end.

Lemma negotiate_data ds : forall s tail, px_ok s -> Forall (fun d => d <> []) ds ->
  negotiate (map RData ds ++ tail) s = after_data s (concat ds) (negotiate tail).
Proof.
  induction ds as [|d rest IH]; intros s tail Hs Hne.
  - cbn [map app concat]. unfold after_data.
    assert (E : px_pull s [] = NeedMore s) by reflexivity. rewrite E. reflexivity.
  - inversion Hne as [|? ? Hd Hrest]; subst.
    cbn [map app concat negotiate]. destruct d as [|b0 d0]; [congruence|].
    unfold after_data. rewrite px_pull_split by exact Hs.
    pose proof (px_pull_ok s (b0 :: d0) Hs) as Hp.
    destruct (px_pull s (b0 :: d0)) as [x s' r|s'|e]; cbn [out_app]; try reflexivity.
    rewrite IH by assumption. reflexivity.
Qed.

Theorem negotiate_segmentation ds ds' tail :
  Forall (fun d => d <> []) ds -> Forall (fun d => d <> []) ds' -> concat ds = concat ds' ->
  negotiate (map RData ds ++ tail) px_init = negotiate (map RData ds' ++ tail) px_init.
Proof.
  intros H1 H2 E. rewrite !negotiate_data by (auto using px_init_ok). rewrite E. reflexivity.
Qed.

(* the coroutine lets a header block through only when its status code is 200 *)
Theorem tunnel_only_on_200 buf x g a n : px_resume tt buf = RItem x g a n -> r_status (parse_response buf) = Some 200.
Proof.
  unfold px_resume. destruct (r_status (parse_response buf)) as [st|]; [|discriminate].
  destruct (st =? 200) eqn:E; [|discriminate]. apply N.eqb_eq in E. congruence.
Qed.

(* every outcome other than a tunnel leaves the write log at exactly the CONNECT request: in the model nothing is
   written during the negotiation at all, so this is the statement that a tunnel needs a 200 *)
Theorem negotiate_tunnel_needs_item script : forall s, px_ok s -> negotiate script s = PxTunnel ->
  exists d s1 x s2 r, In (RData d) script /\ px_pull s1 d = Item x s2 r.
Proof.
  induction script as [|st rest IH]; intros s Hs H; [discriminate|].
  cbn [negotiate] in H. destruct st as [d| | |]; try discriminate.
  destruct d as [|b0 d0]; [discriminate|].
  pose proof (px_pull_ok s (b0 :: d0) Hs) as Hp.
  destruct (px_pull s (b0 :: d0)) as [x s' r|s'|e] eqn:E; try discriminate.
  - exists (b0 :: d0), s, x, s', r. split; [left; reflexivity|exact E].
  - destruct (IH s' Hp H) as (d & s1 & x & s2 & r & Hin & Hpull).
    exists d, s1, x, s2, r. split; [right; exact Hin|exact Hpull].
Qed.
