(* The proxy negotiation: only a complete 200 header block opens the tunnel; independent of segmentation. *)
From Coq Require Import List NArith Arith Lia Bool.
From Coq.Strings Require Import Byte.
From Model Require Import Bytes Parser Response Conn Proxy.
From Proofs Require Import ParserFacts FrameParserFacts.
Import ListNotations.
Open Scope N_scope.

Lemma px_resume_ok g buf :
  match px_resume g buf with
  | RItem _ _ a n | RAwait _ a n => aw_ok a n
  | RErr _ => True end.
Proof. unfold px_resume. destruct (r_status _) as [st|]; [|exact I]. destruct (st =? 200); simpl; [lia|exact I]. Qed.

Definition px_ok (s : pst unit) : Prop := st_ok unit CRLFCRLF s.
Lemma px_init_ok : px_ok px_init.
Proof. reflexivity. Qed.

Lemma px_validate_app g a b : px_validate g (a ++ b) = match px_validate g a with Some g' => px_validate g' b | None => None end.
Proof. reflexivity. Qed.

Theorem px_pull_split s a b : px_ok s ->
  px_pull s (a ++ b) = out_app unit pxitem pxerr (px_pull s a) b (fun s' => px_pull s' b).
Proof.
  intros H. unfold px_pull.
  apply (pull_split unit pxitem pxerr CRLFCRLF crlfcrlf_nonempty px_resume px_validate PxParse PxParse
           px_validate_app (fun g => eq_refl) px_resume_ok (length a)); auto.
Qed.

Theorem px_pull_ok s d : px_ok s ->
  match px_pull s d with
  | Item _ s' r => px_ok s' /\ (length r < length d)%nat
  | NeedMore s' => px_ok s'
  | Err _ => True
  end.
Proof.
  intros H. unfold px_pull, px_ok.
  eapply pullf_ok; try exact px_resume_ok; try exact crlfcrlf_nonempty; auto.
Qed.

(* what the negotiation does with the data part of the script, as a function of the concatenated bytes *)
Definition after_data (s : pst unit) (d : bytes) (k : pst unit -> px_outcome) : px_outcome :=
  match px_pull s d with
  | Item _ _ _ => PxTunnel
  | Err _ => PxFail
  | NeedMore s' => k s'
  end.

Lemma negotiate_data ds : forall s tail, px_ok s -> Forall (fun d => d <> []) ds ->
  negotiate (map RData ds ++ tail) s = after_data s (concat ds) (negotiate tail).
Proof.
  induction ds as [|d rest IH]; intros s tail Hs Hne.
  - cbn [map app concat]. unfold after_data.
    assert (E : px_pull s [] = NeedMore s) by reflexivity. rewrite E. reflexivity.
  - inversion Hne as [|? ? Hd Hrest]; subst.
    cbn [map app concat negotiate]. destruct d as [|b0 d0]; [congruence|].
    unfold after_data. rewrite px_pull_split by exact Hs.
    pose proof (px_pull_ok s (b0 :: d0) Hs) as Hp.
    destruct (px_pull s (b0 :: d0)) as [x s' r|s'|e]; cbn [out_app]; try reflexivity.
    rewrite IH by assumption. reflexivity.
Qed.

Theorem negotiate_segmentation ds ds' tail :
  Forall (fun d => d <> []) ds -> Forall (fun d => d <> []) ds' -> concat ds = concat ds' ->
  negotiate (map RData ds ++ tail) px_init = negotiate (map RData ds' ++ tail) px_init.
Proof.
  intros H1 H2 E. rewrite !negotiate_data by (auto using px_init_ok). rewrite E. reflexivity.
Qed.

(* the coroutine lets a header block through only when its status code is 200 *)
Theorem tunnel_only_on_200 buf x g a n : px_resume tt buf = RItem x g a n -> r_status (parse_response buf) = Some 200.
Proof.
  unfold px_resume. destruct (r_status (parse_response buf)) as [st|]; [|discriminate].
  destruct (st =? 200) eqn:E; [|discriminate]. apply N.eqb_eq in E. congruence.
Qed.

(* every outcome other than a tunnel leaves the write log at exactly the CONNECT request: in the model nothing is
   written during the negotiation at all, so this is the statement that a tunnel needs a 200 *)
Theorem negotiate_tunnel_needs_item script : forall s, px_ok s -> negotiate script s = PxTunnel ->
  exists d s1 x s2 r, In (RData d) script /\ px_pull s1 d = Item x s2 r.
Proof.
  induction script as [|st rest IH]; intros s Hs H; [discriminate|].
  cbn [negotiate] in H. destruct st as [d| | |]; try discriminate.
  destruct d as [|b0 d0]; [discriminate|].
  pose proof (px_pull_ok s (b0 :: d0) Hs) as Hp.
  destruct (px_pull s (b0 :: d0)) as [x s' r|s'|e] eqn:E; try discriminate.
  - exists (b0 :: d0), s, x, s', r. split; [left; reflexivity|exact E].
  - destruct (IH s' Hp H) as (d & s1 & x & s2 & r & Hin & Hpull).
    exists d, s1, x, s2, r. split; [right; exact Hin|exact Hpull].
Qed.

(* ---------- the upgrade request is written only over an established tunnel ---------- *)
From Proofs Require Import ConnFacts TraceFacts.

Definition not_request (x : titem) : Prop := match x with TWriteReq _ => False | _ => True end.

Lemma nr_deliver app c e : ext_by not_request c (fst (deliver app c e)).
Proof. ext_inst fr_deliver not_request. Qed.
Lemma nr_close_socket c : ext_by not_request c (close_socket c).
Proof. unfold close_socket. destruct (k_sock c); [|apply ext_refl]. exists [TSockClose]. split; [reflexivity|repeat constructor]. Qed.

Lemma run_failed_connect_no_request cf app c0 cn steps : cn <> CnOk -> ext_by not_request c0 (run cf app c0 cn steps).
Proof.
  intros Hcn. unfold run.
  assert (G : ext_by not_request c0 (run_gen cf app c0 cn steps)).
  { unfold run_gen. pose proof (nr_deliver app c0 EvConnecting) as H1.
    destruct (deliver app c0 EvConnecting) as [c1 st1]. cbn [fst] in H1.
    destruct st1; try exact H1.
    destruct cn; [congruence| |]; (eapply ext_trans; [exact H1|apply nr_deliver]). }
  destruct (k_with _); [eapply ext_trans; [exact G|apply nr_close_socket]|exact G].
Qed.

Theorem request_only_over_tunnel cf app c0 script steps b :
  (forall b', ~ In (TWriteReq b') (k_tr c0)) ->
  In (TWriteReq b) (k_tr (run_via_proxy cf app c0 script steps)) -> negotiate script px_init = PxTunnel.
Proof.
  intros H0 Hin. unfold run_via_proxy, connect_via_proxy in Hin.
  assert (Q : forall c', ext_by not_request c0 c' -> ~ In (TWriteReq b) (k_tr c')).
  { intros c' (l & El & Fl) Hi. rewrite El in Hi. apply in_app_or in Hi as [Hi|Hi]; [|exact (H0 b Hi)].
    rewrite Forall_forall in Fl. exact (Fl _ Hi). }
  destruct (negotiate script px_init); [reflexivity| |]; exfalso.
  - apply (Q _ (run_failed_connect_no_request cf app c0 CnSocketFail steps ltac:(discriminate)) Hin).
  - revert Hin. apply Q. eapply ext_trans; [apply nr_deliver|apply ext_emit; exact I].
Qed.
