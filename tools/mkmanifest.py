#!/usr/bin/env python3
"""Writes /verif/MANIFEST.json from the table below (kept here so that it stays valid and in one place)."""
import json
import os

VERIF = os.path.dirname(os.path.dirname(os.path.abspath(__file__)))

CHECKS = {
 "C01": ("Theorems over the Coq model (every conforming frame stream, any length form, any read boundaries, through feed, the event loop and the whole run from connect(): the message events are exactly the reference reading's; also on a connection that negotiated permessage-deflate, with the inflater as an oracle consumed once per compressed message in order) + model/implementation correspondence on generated and exhaustively enumerated conforming streams through the real session loop; aliasing of the receive buffer is decided on the implementation side only.",
         "Coq proof about the executable model; tie = extracted model diffed against the real client under a simulated socket; independent expected-events oracle"),
 "C02": ("Segmentation lemma proved for the generic coroutine parser and lifted through the connection model for all chunkings; metamorphic + differential runs of the real client on all cut sets of short streams and many cut sets of long ones.",
         "Coq proof (pull_split / drive_split) + metamorphic differential testing of the tie"),
 "C03": ("Round-trip theorem Frame.build vs. a reference RFC 6455 server decoder for all opcodes/keys/payloads; a regenerated table of the frames the running code builds on both sides of every length-form boundary, proved equal to the model's; API-level theorem on the connection model; every sendall of the real client decoded by an independent decoder and compared byte-for-byte with the model.",
         "Coq proof of the codec round-trip; correspondence on every payload length around the class boundaries"),
 "C04": ("Regenerated proof obligations for Frame.validate / is_reserved / Status.invalid_codes; whole-stream violation theorems on the model (after any conforming prefix: out-of-place data frames, every header-level violation in any length form, lengths >= 2^63, masked frames, malformed Close payloads each give exactly one ProtocolError, fail the feed and deliver nothing further); exhaustive two-byte header sweep and generated prefix x violation x rest scenarios on the real client.",
         "Coq proof + regenerated finite tables checked by vm_compute + exhaustive header sweep of the tie"),
 "C05": ("The validator's state graph is regenerated from the running code and proved equal to the model automaton, which is proved equivalent to the RFC 3629 grammar (accept <-> well-formed, reject <-> non-viable prefix) for all byte strings; stream-level theorems (after any conforming prefix, text payload bytes with no well-formed continuation fail the feed at once with one critical ProtocolError; an ill-formed complete text frame is never delivered; on a compressed connection a message that inflates to ill-formed text or that the inflater refuses is never delivered); delivery and fail-fast through the real session loop.",
         "Coq proof over all byte strings via automaton/grammar equivalence; regenerated DFA tie by vm_compute over 9x256"),
 "C07": ("Monitor-automaton theorem on the session model for all environments and strategies; a passed close / ping deadline ends the iteration; exhaustive bounded enumeration of server steps x application reactions on the real loop, full traces compared with the model; handlers that take time under a selector that honours its timeout.",
         "Coq proof by invariant over the run loop + exhaustive bounded correspondence"),
 "C08": ("Closing-handshake theorems on the model (single Close and nothing after it in every history; whole-stream theorems for both directions: the server's Close after any conforming prefix is answered by exactly one echo with its payload, the server's answer to the client's Close yields Closed and writes nothing); all small orders and random histories on the real client judged on the decoded wire.",
         "Coq proof by invariant + correspondence"),
 "C09": ("No-escape theorem on the model over the fault oracle; systematic fault injection at every socket operation and byte offset on the real client; exhaustive connect-outcome patterns against the real _connect_sock.",
         "Coq proof over all fault scripts of the model + fault enumeration of the tie"),
 "C13": ("Release theorem on the model's abandonment semantics for every yield site and mechanism, and no use of the socket after socket.close() in any run; abandonment at every event index x 6 mechanisms (incl. reconnecting the object before the old iterator is released, and an exception leaving the with-block while the iterator is still referenced) on the real generators (CPython finalisation is modelled, the tie checks it).",
         "Coq proof over all yield sites of the model + exhaustive abandonment runs"),
 "C14": ("Pong theorems on the model (each Ping event is immediately preceded by its Pong while no Close was sent; whole stream: for any application that only sends, the library writes exactly one Pong per Ping, in order, also on a compressed connection); streams with pings anywhere on the real client, Pongs judged as decoded by a strict RFC 6455 server.",
         "Coq proof + correspondence"),
 "C15": ("Timer theorems over integer ticks (poll spacing, ping periods, unresponsive, close timeout), also with the wake-up hypothesis derived from a selector that honours its timeout; the step functions tied to the running _check_* methods and _regular by a regenerated table (kernel-checked on every run); the real loop on a virtual clock, under scripted wake-ups and under a simulated selector that sleeps exactly as long as it is asked to, over the full parameter grid, time-stamped traces compared with the model and judged against the bounds.",
         "Coq proof over Z ticks + regenerated decision table + virtual-clock correspondence"),
 "C06": ("Bookkeeping theorems on the model with zlib as an oracle (which context sees which bytes in which order on the sending and on the receiving side of the connection model, resets, a new context after a stream that ended, RSV1 placement, parameter parsing); an independent RFC 7692 peer built on plain zlib objects against the real client for all 256 parameter combinations. Partial: DEFLATE itself is not verified.",
         "Coq proof of the bookkeeping with zlib as a Section-variable oracle + differential testing against an independent RFC 7692 peer"),
 "C10": ("Theorems on the model's URL reading (parse/render round trip: request target and Host header are functions of the URL's components), request builder and reply decision (Ready iff 101, Upgrade: websocket and matching accept; rendering-independence), and at run level: a Ready event implies a reply carrying base64(sha1(base64(random 16 bytes) ++ GUID)) of this attempt, with SHA-1 and base64 executable inside the model (base64 round trip, lengths, header-safe alphabet proved) and compared with hashlib/base64 and the real object on every run; requests parsed by a strict parser, replies rendered from intent in every spelling. The case-insensitive accept comparison is a known finding (KF-D). Partial: nothing is claimed about SHA-1 as a hash function.",
         "Coq proof over the URL, digest and response-parser model + correspondence; known finding KF-D"),
 "C11": ("Theorems on the action-level concurrency model for all schedules (whole frames, per-thread order, compression order = wire order); the real methods on real threads under a deterministic scheduler, all schedules up to a preemption bound, compared action-by-action with the model.",
         "Coq proof over all schedules of the action-level model + systematic schedule enumeration of the real code"),
 "C12": ("Theorems on the same concurrency model (at most one Close frame, no data frame after it, losers fail); exhaustive schedule enumeration of close() against sends, closes and server-Close processing on the real code, at action level and at source-line level with one and two preemptions.",
         "Coq proof over all schedules of the action-level model + systematic schedule enumeration of the real code"),
 "C17": ("In the model connect() replaces the whole per-connection record, so the theorem holds by construction; its content -- nothing mutable survives connect() -- is tied to the code by the regenerated object-graph inventory and by differential runs of second connections against fresh objects after every kind of abnormal ending (including an abandoned iterator that is released only by the next connect(): finding KF-I, repaired). Partial.",
         "regenerated inventory obligation + differential testing (second connection vs fresh object)"),
 "C18": ("No-stall theorem on the transport model (the loop blocks only when the TLS pending buffer and the kernel queue are both empty; everything available is handed to feed before blocking; joined with the delivery theorem: the messages of an available conforming frame sequence are all yielded, and their Pongs written, before the loop blocks again); the real loop and the real SelectorBase.wait over a simulated kernel/TLS layer on a virtual clock, plus real loopback TCP and TLS runs. Partial: kernel and TLS are modelled.",
         "Coq proof over the transport model + virtual-clock correspondence + real-socket tests"),
 "C19": ("Theorems on the proxy negotiation model (reuses the parser segmentation lemma): only a complete 200 header block yields a tunnel, in the whole attempt the upgrade request is written only over an established tunnel, and the proxy's address, TLS flag and Basic credentials are functions of the proxy URL's components (URL model, base64 round trip); the real _connect/_connect_proxy against a fake socket module with every reply kind, URL shape and segmentation; all socket operations logged.",
         "Coq proof over the proxy parser model + correspondence on logged socket operations"),
 "C16": ("Theorem on the persist model for every outcome sequence, draw and exit script; real persist() over scripted connections with exact rational comparison of delays.",
         "Coq proof by induction over the outcome list + exact-fraction correspondence"),
}

NOT_YET = {
}

LEVEL_NOTE = ("Trusted base: Coq 8.16.1 kernel (full .vo builds, vm_compute, no native_compute), no axioms declared (Print Assumptions output is in the evidence); "
              "tools/regen.py; extraction with ExtrOcamlBasic only + extract/driver.ml; the Python harness (simulated socket/selector/clock, canonicalisation, oracles). "
              "The theorems are about the hand-written model; the model is tied to /repo by the regenerated tables and by the correspondence runs only, on the scenarios listed in the evidence.")


def main():
    props = [json.loads(l) for l in open(os.path.join(VERIF, "properties.jsonl"))]
    extra_notes = json.load(open(os.path.join(VERIF, "tools", "manifest_extra.json"))) if os.path.exists(os.path.join(VERIF, "tools", "manifest_extra.json")) else {}
    checks = []
    na = []
    for p in props:
        pid = p["id"]
        if pid in CHECKS:
            text, tech = CHECKS[pid]
            checks.append({
                "property_id": pid,
                "quick_cmd": "/venv/bin/python /verif/check.py %s quick" % pid,
                "thorough_cmd": "/venv/bin/python /verif/check.py %s thorough" % pid,
                "evidence_file": "/verif/evidence/%s.json" % pid,
                "replay_cmd_template": "/venv/bin/python /verif/check.py %s --replay {path}" % pid,
                "engine": "coq-model",
                "level_claimed": {"category": "proof", "text": text, "design_ref": "DESIGN.md section 6, %s" % pid},
                "level_note": LEVEL_NOTE + (" " + extra_notes[pid] if pid in extra_notes else ""),
                "technique": tech,
            })
        else:
            na.append({"property_id": pid, "reason": NOT_YET.get(pid, "check not built yet (work in progress; planned in DESIGN.md section 6)")})
    m = {
        "version": 1,
        "setup_cmd": "/venv/bin/python /verif/check.py setup",
        "hooks": {
            "guard": "LOMOND_VERIF",
            "enable": "no hooks are needed or present: the harness drives lomond through its public seams (connect(session_class=), _selector_cls, module-level socket/time/os.urandom, lomond.frame.make_masking_key)",
            "baseline_off_cmd": "cd /repo && /venv/bin/python -m pytest -ra -q -p no:cacheprovider --timeout=900 --continue-on-collection-errors",
            "source_commits": [],
            "add_only": True,
        },
        "engines": [{"name": "coq-model", "path": "/verif/coq", "serves_properties": sorted(CHECKS),
                     "kind_free_text": "Coq 8.16.1 development: executable Gallina model of lomond (model/), lemma libraries (proofs/), property theorems (props/), tables regenerated from the live code (gen/), extraction to OCaml (extract/); Python harness in /verif/harness runs the real client against it"}],
        "checks": checks,
        "notes": "See DESIGN.md. Seven genuine defects were repaired by fix: commits in /repo and one is listed as a known finding (known_findings.json). DESIGN.md section 11 describes what was built.",
        "not_applicable": na,
    }
    with open(os.path.join(VERIF, "MANIFEST.json"), "w") as f:
        json.dump(m, f, indent=1)
    print("checks:", len(checks), "not yet:", len(na))


if __name__ == "__main__":
    main()
