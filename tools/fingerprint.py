#!/usr/bin/env python3
"""Structural fingerprints of lomond's functions (hash of the AST without docstrings).
  fingerprint.py --write   record the fingerprints of $LOMOND_REPO (default /repo) in /verif/fingerprints.json
  fingerprint.py           print the functions whose fingerprint differs from the recorded one
The fingerprints raise no alarm by themselves: check.py uses them to search more deeply when the code under a check is
not the code the checks were last calibrated on."""
import ast, hashlib, json, os, sys

VERIF = os.path.dirname(os.path.dirname(os.path.abspath(__file__)))
REPO = os.environ.get("LOMOND_REPO") or "/repo"
FILE = os.path.join(VERIF, "fingerprints.json")


def _strip_doc(node):
    for n in ast.walk(node):
        body = getattr(n, "body", None)
        if isinstance(body, list) and body and isinstance(body[0], ast.Expr) and isinstance(getattr(body[0], "value", None), ast.Constant) \
                and isinstance(body[0].value.value, str):
            n.body = body[1:] or [ast.Pass()]
    return node


def current(repo=REPO):
    out = {}
    d = os.path.join(repo, "lomond")
    for fn in sorted(os.listdir(d)):
        if not fn.endswith(".py"):
            continue
        try:
            tree = ast.parse(open(os.path.join(d, fn)).read())
        except SyntaxError:
            out[fn] = "syntax-error"
            continue
        tree = _strip_doc(tree)

        def visit(node, prefix):
            for ch in ast.iter_child_nodes(node):
                if isinstance(ch, (ast.FunctionDef, ast.AsyncFunctionDef, ast.ClassDef)):
                    name = prefix + ch.name
                    if not isinstance(ch, ast.ClassDef):
                        out["%s::%s" % (fn, name)] = hashlib.sha1(ast.dump(ch).encode()).hexdigest()[:16]
                    visit(ch, name + ".")
        visit(tree, "")
        # module level statements other than defs (constants, class attributes are inside the classes' own hash below)
        top = [n for n in tree.body if not isinstance(n, (ast.FunctionDef, ast.AsyncFunctionDef, ast.ClassDef))]
        out["%s::<module>" % fn] = hashlib.sha1("".join(ast.dump(n) for n in top).encode()).hexdigest()[:16]
        for n in tree.body:
            if isinstance(n, ast.ClassDef):
                attrs = [m for m in n.body if not isinstance(m, (ast.FunctionDef, ast.AsyncFunctionDef, ast.ClassDef))]
                out["%s::%s.<class>" % (fn, n.name)] = hashlib.sha1(("".join(ast.dump(m) for m in attrs) + ast.dump(ast.Tuple(elts=n.bases, ctx=ast.Load()))).encode()).hexdigest()[:16]
    return out


def changed(repo=REPO):
    try:
        doc = json.load(open(FILE))
        rec = doc["functions"]
    except Exception:
        return []
    if doc.get("python") != list(sys.version_info[:2]):
        return []       # ast.dump differs between interpreter versions: no information
    cur = current(repo)
    return sorted(k for k in set(rec) | set(cur) if rec.get(k) != cur.get(k))


if __name__ == "__main__":
    if "--write" in sys.argv:
        json.dump({"comment": "written by tools/fingerprint.py --write (run it with /venv/bin/python) from the /repo HEAD the checks were calibrated on",
                   "python": list(sys.version_info[:2]), "functions": current()}, open(FILE, "w"), indent=0, sort_keys=True)
        print("recorded", len(current()), "fingerprints")
    else:
        for k in changed():
            print(k)
