#!/usr/bin/env python3
"""Re-run the property's own quick check against every stored seeded change (/verif/seeded/*/patch.diff), each applied to a
scratch worktree of /repo HEAD; /repo and /verif are not touched (scratch clone /tmp/vseed, worktrees under /tmp/confirm).
usage: seed_regress.py [--all-checks] [name ...]     prints one JSON line per seed and a summary"""
import json, os, re, shutil, subprocess, sys, time

PY = "/venv/bin/python"
ALL = ["C%02d" % i for i in range(1, 20)]


def sh(cmd, cwd=None, env=None, timeout=3600):
    p = subprocess.run(cmd, shell=True, cwd=cwd, env=env, capture_output=True, text=True, timeout=timeout)
    return p.returncode, p.stdout + p.stderr


def main():
    args = sys.argv[1:]
    allchecks = "--all-checks" in args
    names = [a for a in args if not a.startswith("--")] or sorted(os.listdir("/verif/seeded"))
    vseed = os.environ.get("VSEED", "/tmp/vseed")
    if not os.path.isdir(vseed):
        sh(f"git clone -q /verif {vseed}")
    sh("git fetch -q origin && git reset -q --hard origin/main", cwd=vseed)
    rc, out = sh(f"{PY} check.py setup", cwd=vseed)
    print("vseed:", sh("git log --oneline | head -1", cwd=vseed)[1].strip(), "|", out.strip().splitlines()[-1] if out.strip() else rc, flush=True)
    os.makedirs("/tmp/confirm", exist_ok=True)
    missed = []
    badreplay = []
    for name in names:
        d = f"/verif/seeded/{name}"
        if not os.path.isfile(f"{d}/patch.diff"):
            continue
        pid = name.split("-")[0]
        w = f"/tmp/confirm/r-{name}"
        sh(f"git -C /repo worktree remove --force {w}")
        shutil.rmtree(w, ignore_errors=True)
        sh(f"git -C /repo worktree add -q {w} HEAD")
        res = {"name": name}
        try:
            rca, oa = sh(f"git apply {d}/patch.diff", cwd=w)
            res["apply_rc"] = rca
            if rca != 0:
                res["apply_err"] = oa[-200:]
            else:
                env = dict(os.environ, LOMOND_REPO=w)
                verdicts = {}
                for p in (ALL if allchecks else [pid]):
                    rcc, oc = sh(f"{PY} check.py {p} quick", cwd=vseed, env=env, timeout=3000)
                    line = ([l for l in oc.splitlines() if l.startswith("VIOLATION")] or [""])[0]
                    verdicts[p] = "no-input" if "no-failing-input-found" in line else ("VIOLATION" if rcc == 1 else ("OK" if rcc == 0 else "rc%d" % rcc))
                    if p == pid and rcc == 1 and "no-failing-input-found" not in line:
                        # the replay file must reproduce on the changed tree and must not on the unchanged one
                        m = re.search(r"replay=(\S+)", line)
                        if m and os.path.isfile(m.group(1)):
                            r1, _ = sh(f"{PY} check.py {p} --replay {m.group(1)}", cwd=vseed, env=env, timeout=1200)
                            r0, _ = sh(f"{PY} check.py {p} --replay {m.group(1)}", cwd=vseed, env=dict(os.environ, LOMOND_REPO="/repo"), timeout=1200)
                            res["replay"] = "ok" if (r1 == 1 and r0 == 0) else "changed=%d unchanged=%d" % (r1, r0)
                            if res["replay"] != "ok":
                                badreplay.append((name, res["replay"]))
                res["verdicts"] = verdicts
                if verdicts.get(pid) != "VIOLATION":
                    missed.append((name, verdicts.get(pid)))
        finally:
            sh(f"git -C /repo worktree remove --force {w}")
            shutil.rmtree(w, ignore_errors=True)
        print(json.dumps(res), flush=True)
    print("SUMMARY: %d seeds, own-property check did not report a failing input for: %s ; replay files that do not behave (exit 1 on the changed tree, 0 on the unchanged one): %s" % (len(names), missed, badreplay), flush=True)


if __name__ == "__main__":
    main()
