#!/bin/sh
# usage: try_seed.sh <patch.diff> <Cnn> [tier]   -- apply a seeded change to /repo, run one check, undo it
patch="$1"; pid="$2"; tier="${3:-quick}"
git -C /repo apply "$patch" || { echo "patch does not apply"; exit 2; }
/venv/bin/python /verif/check.py "$pid" "$tier" > /tmp/try_seed.out 2>&1; rc=$?
git -C /repo checkout -- .
PYTHONPATH=/repo /venv/bin/python /verif/tools/regen.py /verif/coq/gen >/dev/null 2>&1
grep -E "^(VIOLATION|OK|KNOWN)" /tmp/try_seed.out | head -3
echo "rc=$rc"
