#!/usr/bin/env python3
"""Confirm independently written seeded changes and try the checks on them, without touching /repo or /verif.

usage: seed_pipeline.py <src-root> <suffixes> <Cnn> [<Cnn> ...]      e.g.  seed_pipeline.py /tmp/seed2 cd C01 C02
  <src-root>/<Cnn>/_seed/<x>/{patch.diff,demo.py,notes.md}  is what a sub-agent delivered.
For every seed: a scratch worktree of /repo HEAD under /tmp/confirm, demo on the clean tree (must exit 0), git apply,
demo (must exit 1), the repository's test-suite (must be at its baseline), then the property's quick check run from a
scratch clone of /verif (/tmp/vseed, own build directory) with LOMOND_REPO pointing at the patched worktree.
Confirmed seeds are copied to /verif/seeded/<Cnn>-<x>/ with a meta.json.  Everything under /tmp is removed afterwards
(except the /tmp/vseed clone, which is reused between calls; delete it when done)."""
import json, os, re, shutil, subprocess, sys, time

PY = "/venv/bin/python"
BASE_FAIL = {"test_broken", "test_echo", "test_echo_no_sni", "test_not_ws", "test_not_ws_select", "test_proxy", "test_bad_proxy",
             "test_that_on_ping_responds_with_pong"}


def sh(cmd, cwd=None, env=None, timeout=3600):
    p = subprocess.run(cmd, shell=True, cwd=cwd, env=env, capture_output=True, text=True, timeout=timeout)
    return p.returncode, p.stdout + p.stderr


def suite(w):
    for attempt in range(3):
        rc, out = sh(f"{PY} -m pytest -q -p no:cacheprovider --timeout=900 -x --co -q >/dev/null 2>&1; {PY} -m pytest -q -p no:cacheprovider --timeout=900 2>&1 | tail -15", cwd=w)
        m = re.search(r"(\d+) failed, (\d+) passed", out)
        failed = set(re.findall(r"FAILED \S+::(\w+)", out))
        if m and int(m.group(2)) == 162 and int(m.group(1)) == 8 and failed <= BASE_FAIL | set():
            return True, "162 passed, 8 failed (baseline)"
        last = (m.group(0) if m else out[-300:])
    return False, last


def main():
    src, suffixes, pids = sys.argv[1], sys.argv[2], sys.argv[3:]
    vseed = os.environ.get("VSEED", "/tmp/vseed")
    if not os.path.isdir(vseed):
        sh(f"git clone -q /verif {vseed}")
        rc, out = sh(f"{PY} check.py setup", cwd=vseed)
        print("vseed setup:", out.strip().splitlines()[-1] if out.strip() else rc, flush=True)
    else:
        sh("git fetch -q origin && git reset -q --hard origin/main", cwd=vseed)
        rc, out = sh(f"{PY} check.py setup", cwd=vseed)
        print("vseed sync:", sh("git log --oneline | head -1", cwd=vseed)[1].strip(), "|", out.strip().splitlines()[-1] if out.strip() else rc, flush=True)
    os.makedirs("/tmp/confirm", exist_ok=True)
    for pid in pids:
        for x in suffixes:
            sd = f"{src}/{pid}/_seed/{x}"
            name = f"{pid}-{x}"
            if not os.path.isfile(f"{sd}/patch.diff"):
                print(name, "MISSING", flush=True)
                continue
            w = f"/tmp/confirm/{name}"
            sh(f"git -C /repo worktree remove --force {w}")
            shutil.rmtree(w, ignore_errors=True)
            rc, out = sh(f"git -C /repo worktree add -q {w} HEAD")
            res = {"name": name}
            try:
                os.makedirs(f"{w}/_seed/{x}", exist_ok=True)
                for f in ("patch.diff", "demo.py", "notes.md"):
                    shutil.copy(f"{sd}/{f}", f"{w}/_seed/{x}/{f}")
                demo = open(f"{w}/_seed/{x}/demo.py").read().replace(f"{src}/{pid}", w)
                open(f"{w}/_seed/{x}/demo.py", "w").write(demo)
                rc0, o0 = sh(f"{PY} _seed/{x}/demo.py", cwd=w, timeout=300)
                rca, oa = sh(f"git apply _seed/{x}/patch.diff", cwd=w)
                rc1, o1 = sh(f"{PY} _seed/{x}/demo.py", cwd=w, timeout=300)
                ok_suite, suite_txt = suite(w) if (rc0 == 0 and rca == 0 and rc1 == 1) else (False, "not run")
                res.update(clean_demo_rc=rc0, apply_rc=rca, patched_demo_rc=rc1, suite=suite_txt)
                confirmed = rc0 == 0 and rca == 0 and rc1 == 1 and ok_suite
                res["confirmed"] = confirmed
                if confirmed:
                    env = dict(os.environ, LOMOND_REPO=w)
                    t0 = time.time()
                    # (rc 124: the check did not end within 25 minutes -- it hangs on this change)
                    rcc, oc = sh(f"timeout -k 10 1500 {PY} check.py {pid} quick", cwd=vseed, env=env, timeout=3000)
                    lines = [l for l in oc.splitlines() if re.match(r"^(VIOLATION|OK|KNOWN)", l)]
                    res.update(check_rc=rcc, check_lines=lines[:3], check_wall=round(time.time() - t0, 1))
                    # keep the replay's headline
                    m = re.search(r"replay=(\S+)", " ".join(lines))
                    if m and os.path.isfile(m.group(1)):
                        try:
                            rp = json.load(open(m.group(1)))
                            res["replay_what"] = str(rp.get("what") or rp.get("violations", [{}])[0].get("what", ""))[:300]
                        except Exception as e:
                            res["replay_what"] = "unreadable: %s" % e
                    dst = f"/verif/seeded/{name}"
                    os.makedirs(dst, exist_ok=True)
                    for f in ("patch.diff", "notes.md"):
                        shutil.copy(f"{sd}/{f}", f"{dst}/{f}")
                    open(f"{dst}/demo.py", "w").write(open(f"{sd}/demo.py").read())
                    props = {json.loads(l)["id"]: json.loads(l) for l in open("/verif/properties.jsonl")}
                    notes = [l.strip() for l in open(f"{sd}/notes.md") if l.strip()][:12]
                    meta = {"property": pid, "title": props[pid]["title"], "round": {"a": 1, "b": 1, "c": 2, "d": 2, "e": 3, "f": 3, "g": 4, "h": 4, "i": 5, "j": 5, "k": 6, "l": 6, "m": 7, "n": 7, "o": 8, "p": 8, "q": 9, "r": 9, "s": 10, "t": 10}.get(x, 0),
                            "source": "written by an independent sub-agent that was given only the property text and its own scratch worktree of /repo",
                            "rebased": False, "rebased_note": None, "needs_to_manifest": notes,
                            "confirmed": {"how": "tools/seed_pipeline.py: scratch worktree of /repo HEAD under /tmp/confirm: demo.py on the clean tree (exit 0), git apply patch.diff, demo.py (exit 1), full pytest suite at baseline; worktree removed afterwards",
                                          "clean_demo_rc": rc0, "patched_demo_rc": rc1, "suite": suite_txt},
                            "detected_by": {"check": f"{pid} quick", "command": f"LOMOND_REPO=<patched worktree> check.py {pid} quick (from a scratch clone of /verif)",
                                            "result": ("VIOLATION with a failing input (replay file)" if (rcc == 1 and lines and "no-failing-input-found" not in lines[0]) else
                                                       ("VIOLATION no-failing-input-found" if rcc == 1 else "NOT DETECTED")),
                                            "lines": lines[:3]}}
                    json.dump(meta, open(f"{dst}/meta.json", "w"), indent=1)
            except Exception as e:
                res["error"] = repr(e)
            finally:
                sh(f"git -C /repo worktree remove --force {w}")
                shutil.rmtree(w, ignore_errors=True)
            print(json.dumps(res), flush=True)


if __name__ == "__main__":
    main()
